//! E3 `drv`: in-process LALRPOP driver (public API only) with diagnostics captured.

use crate::gram::Algo;
use std::io::Write;
use std::os::unix::io::AsRawFd;
use std::path::{Path, PathBuf};
use std::sync::Mutex;

#[derive(Clone, Debug)]
pub struct GenOpts {
    pub algo: Algo,
    pub emit_comments: bool,
    pub emit_whitespace: bool,
    pub emit_report: bool,
    pub features: Option<Vec<String>>,
    pub force: bool,
}
impl Default for GenOpts {
    fn default() -> Self {
        GenOpts { algo: Algo::Lane, emit_comments: false, emit_whitespace: true, emit_report: false, features: None, force: true }
    }
}
impl GenOpts {
    pub fn algo(a: Algo) -> Self {
        GenOpts { algo: a, ..Default::default() }
    }
}

#[derive(Clone, Debug, PartialEq, Eq)]
pub enum DiagClass {
    None,
    LrConflict,
    LexAmbiguity,
    Other,
}

#[derive(Debug)]
pub struct GenOut {
    pub ok: bool,
    pub rs: Option<String>,
    pub diag: String,
    pub err: Option<String>,
    pub panic: Option<String>,
}
impl GenOut {
    pub fn class(&self) -> DiagClass {
        if self.ok {
            return DiagClass::None;
        }
        let d = &self.diag;
        if d.contains("ambiguity detected between the terminal") {
            return DiagClass::LexAmbiguity;
        }
        // the four headings of lr1/error/mod.rs
        if d.contains("Conflict detected") || d.contains("Local ambiguity detected") || d.contains("Ambiguous grammar detected") || d.contains("Multiple productions for the same reduction") {
            return DiagClass::LrConflict;
        }
        DiagClass::Other
    }
}

static LAST_PANIC: Mutex<Option<String>> = Mutex::new(None);

pub fn install_quiet_panic_hook() {
    std::panic::set_hook(Box::new(|info| {
        let msg = if let Some(s) = info.payload().downcast_ref::<&str>() {
            s.to_string()
        } else if let Some(s) = info.payload().downcast_ref::<String>() {
            s.clone()
        } else {
            "<non-string panic>".to_string()
        };
        let loc = info.location().map(|l| format!("{}:{}", l.file(), l.line())).unwrap_or_default();
        *LAST_PANIC.lock().unwrap() = Some(format!("{} @ {}", msg, loc));
    }));
}
pub fn take_last_panic() -> Option<String> {
    LAST_PANIC.lock().unwrap().take()
}

/// Redirect fds 1 and 2 into `file` while `f` runs.
pub fn capture<R>(file: &Path, f: impl FnOnce() -> R) -> (R, String) {
    let _ = std::io::stdout().flush();
    let _ = std::io::stderr().flush();
    let out = std::fs::OpenOptions::new().create(true).write(true).truncate(true).open(file).expect("capture file");
    let (s1, s2);
    unsafe {
        s1 = libc::dup(1);
        s2 = libc::dup(2);
        libc::dup2(out.as_raw_fd(), 1);
        libc::dup2(out.as_raw_fd(), 2);
    }
    let r = f();
    let _ = std::io::stdout().flush();
    let _ = std::io::stderr().flush();
    unsafe {
        libc::dup2(s1, 1);
        libc::dup2(s2, 2);
        libc::close(s1);
        libc::close(s2);
    }
    drop(out);
    let bytes = std::fs::read(file).unwrap_or_default();
    (r, String::from_utf8_lossy(&bytes).into_owned())
}

pub fn set_algo_env(algo: Algo) {
    // process-global; workers are single-threaded
    unsafe {
        match algo {
            Algo::Lane => std::env::remove_var("LALRPOP_LANE_TABLE"),
            Algo::Lr1 | Algo::Lalr => std::env::set_var("LALRPOP_LANE_TABLE", "disabled"),
        }
    }
}

pub fn configure(opts: &GenOpts) -> lalrpop::Configuration {
    let mut c = lalrpop::Configuration::new();
    c.never_use_colors();
    c.log_quiet();
    c.force_build(opts.force);
    c.emit_comments(opts.emit_comments);
    c.emit_whitespace(opts.emit_whitespace);
    c.emit_report(opts.emit_report);
    if let Some(f) = &opts.features {
        c.set_features(f.iter().cloned());
    }
    c
}

/// Generate a parser for `text` in directory `dir` (file `g.lalrpop` -> `g.rs`).
pub fn generate_in(dir: &Path, text: &[u8], opts: &GenOpts) -> GenOut {
    let src = dir.join("g.lalrpop");
    let rs = dir.join("g.rs");
    std::fs::write(&src, text).unwrap();
    let _ = std::fs::remove_file(&rs);
    set_algo_env(opts.algo);
    let c = configure(opts);
    let cap = dir.join("capture.txt");
    let _ = take_last_panic();
    let (res, diag) = capture(&cap, || std::panic::catch_unwind(std::panic::AssertUnwindSafe(|| c.process_file(&src).map_err(|e| e.to_string()))));
    match res {
        Ok(Ok(())) => {
            let body = std::fs::read_to_string(&rs).ok();
            GenOut { ok: body.is_some(), rs: body, diag, err: None, panic: None }
        }
        Ok(Err(e)) => GenOut { ok: false, rs: std::fs::read_to_string(&rs).ok(), diag, err: Some(e), panic: None },
        Err(_) => GenOut { ok: false, rs: None, diag, err: None, panic: Some(take_last_panic().unwrap_or_else(|| "<panic>".into())) },
    }
}

pub fn scratch_sub(base: &Path, name: &str) -> PathBuf {
    let d = base.join(name);
    let _ = std::fs::create_dir_all(&d);
    d
}
