//! E4 `lift`: strict text-level extractor of the table-driven parser tables from a generated
//! `.rs` file. Anything not recognised is an `Err` (machinery error), never a verdict.

use std::collections::BTreeMap;

#[derive(Clone, Debug)]
pub enum Reduce {
    Reduce { pop: usize, nt: usize },
    Accept,
}

#[derive(Clone, Debug)]
pub struct Tables {
    pub start: String,
    pub prefix: String,
    pub k: usize, // columns of ACTION
    pub nstates: usize,
    pub action: Vec<i32>,
    pub eof_action: Vec<i32>,
    /// goto[nt] = (per-state overrides, default)
    pub goto: Vec<(Vec<(i32, i32, i32)>, i32)>, // (lo, hi, target) ranges ; default
    pub terminals: Vec<String>,
    pub error_col: usize,
    pub uses_error_recovery: bool,
    pub reduces: Vec<Reduce>,
    /// production text per reduce index: (lhs, rhs symbols as printed)
    pub prod_text: Vec<Option<(String, Vec<String>)>>,
    /// token pattern text -> terminal index
    pub token_index: Vec<(String, usize)>,
}

#[derive(Clone, Debug)]
pub struct Lifted {
    pub parsers: Vec<Tables>,
    /// built-in lexer: (regex, skip) list, exactly as the generated code passes it
    pub lexer: Option<Vec<(String, bool)>>,
}

fn strip_comment(line: &str) -> &str {
    match line.find("//") {
        Some(i) => &line[..i],
        None => line,
    }
}

fn parse_int_array(body: &str) -> Result<Vec<i32>, String> {
    let mut v = vec![];
    for line in body.lines() {
        let l = strip_comment(line);
        for part in l.split(',') {
            let p = part.trim();
            if p.is_empty() {
                continue;
            }
            v.push(p.parse::<i32>().map_err(|_| format!("bad table entry `{}`", p))?);
        }
    }
    Ok(v)
}

fn between<'a>(s: &'a str, start: &str, end: &str) -> Option<&'a str> {
    let i = s.find(start)? + start.len();
    let j = s[i..].find(end)? + i;
    Some(&s[i..j])
}

/// Unescape a Rust (non-raw) string literal body.
pub fn unescape(body: &str) -> Result<String, String> {
    let mut out = String::new();
    let mut it = body.chars().peekable();
    while let Some(c) = it.next() {
        if c != '\\' {
            out.push(c);
            continue;
        }
        match it.next().ok_or("dangling backslash")? {
            'n' => out.push('\n'),
            't' => out.push('\t'),
            'r' => out.push('\r'),
            '0' => out.push('\0'),
            '\\' => out.push('\\'),
            '"' => out.push('"'),
            '\'' => out.push('\''),
            'x' => {
                let h: String = [it.next().ok_or("x")?, it.next().ok_or("x")?].iter().collect();
                out.push(u8::from_str_radix(&h, 16).map_err(|e| e.to_string())? as char);
            }
            'u' => {
                if it.next() != Some('{') {
                    return Err("bad \\u".into());
                }
                let mut h = String::new();
                loop {
                    match it.next().ok_or("bad \\u")? {
                        '}' => break,
                        '_' => {}
                        c => h.push(c),
                    }
                }
                out.push(char::from_u32(u32::from_str_radix(&h, 16).map_err(|e| e.to_string())?).ok_or("bad code point")?);
            }
            '\n' => {
                while let Some(c) = it.peek() {
                    if c.is_whitespace() {
                        it.next();
                    } else {
                        break;
                    }
                }
            }
            c => return Err(format!("unknown escape \\{}", c)),
        }
    }
    Ok(out)
}

/// Parse a Rust string literal token text (`"…"`, `r"…"`, `r#"…"#`).
pub fn parse_str_literal(tok: &str) -> Result<String, String> {
    let t = tok.trim();
    if let Some(rest) = t.strip_prefix('r') {
        let hashes = rest.chars().take_while(|c| *c == '#').count();
        let inner = &rest[hashes..];
        let inner = inner.strip_prefix('"').ok_or("raw string: no opening quote")?;
        let close = format!("\"{}", "#".repeat(hashes));
        let inner = inner.strip_suffix(&close).ok_or("raw string: no closing quote")?;
        return Ok(inner.to_string());
    }
    let inner = t.strip_prefix('"').and_then(|x| x.strip_suffix('"')).ok_or_else(|| format!("not a string literal: {}", t))?;
    unescape(inner)
}

fn lift_lexer(text: &str) -> Result<Option<Vec<(String, bool)>>, String> {
    let Some(i) = text.find("strs: &[(&str, bool)] = &[") else { return Ok(None) };
    let rest = &text[i..];
    let j = rest.find("];").ok_or("lexer list: no end")?;
    let body = &rest[rest.find("&[\n").map(|x| x + 3).ok_or("lexer list: no start")?..j];
    let ts: proc_macro2::TokenStream = body.parse().map_err(|e| format!("lexer list does not tokenize: {:?}", e))?;
    let mut out = vec![];
    for tt in ts {
        match tt {
            proc_macro2::TokenTree::Group(g) => {
                let inner: Vec<proc_macro2::TokenTree> = g.stream().into_iter().collect();
                if inner.len() != 3 {
                    return Err(format!("lexer entry has {} tokens", inner.len()));
                }
                let lit = inner[0].to_string();
                let skip = match inner[2].to_string().as_str() {
                    "true" => true,
                    "false" => false,
                    o => return Err(format!("lexer entry flag `{}`", o)),
                };
                out.push((parse_str_literal(&lit)?, skip));
            }
            proc_macro2::TokenTree::Punct(p) if p.as_char() == ',' => {}
            o => return Err(format!("unexpected token in lexer list: {}", o)),
        }
    }
    Ok(Some(out))
}

fn parse_goto(body: &str) -> Result<Vec<(Vec<(i32, i32, i32)>, i32)>, String> {
    // body: lines inside `match nt {` ... until the `_ => 0,`
    let mut out: BTreeMap<usize, (Vec<(i32, i32, i32)>, i32)> = BTreeMap::new();
    let mut cur: Option<usize> = None;
    for line in body.lines() {
        let l = line.trim();
        if l.is_empty() {
            continue;
        }
        if let Some(nt) = cur {
            if l == "}," {
                cur = None;
                continue;
            }
            let (pat, tgt) = l.split_once("=>").ok_or_else(|| format!("goto arm `{}`", l))?;
            let tgt: i32 = tgt.trim().trim_end_matches(',').parse().map_err(|_| format!("goto target `{}`", l))?;
            let pat = pat.trim();
            let e = out.get_mut(&nt).unwrap();
            if pat == "_" {
                e.1 = tgt;
            } else {
                for alt in pat.split('|') {
                    let a = alt.trim();
                    if let Some((lo, hi)) = a.split_once("..=") {
                        e.0.push((lo.trim().parse().map_err(|_| format!("goto pat `{}`", a))?, hi.trim().parse().map_err(|_| format!("goto pat `{}`", a))?, tgt));
                    } else {
                        let v: i32 = a.parse().map_err(|_| format!("goto pat `{}`", a))?;
                        e.0.push((v, v, tgt));
                    }
                }
            }
        } else {
            let (pat, rhs) = l.split_once("=>").ok_or_else(|| format!("goto line `{}`", l))?;
            let pat = pat.trim();
            let rhs = rhs.trim();
            if pat == "_" {
                if rhs != "0," {
                    return Err(format!("goto default `{}`", l));
                }
                continue;
            }
            let nt: usize = pat.parse().map_err(|_| format!("goto nt `{}`", l))?;
            if rhs == "match state {" {
                out.insert(nt, (vec![], -1));
                cur = Some(nt);
            } else {
                let tgt: i32 = rhs.trim_end_matches(',').parse().map_err(|_| format!("goto single `{}`", l))?;
                out.insert(nt, (vec![], tgt));
            }
        }
    }
    let n = out.keys().max().map(|x| x + 1).unwrap_or(0);
    let mut v = vec![(vec![], -1); n];
    for (k, e) in out {
        v[k] = e;
    }
    Ok(v)
}

fn lift_parser(modtext: &str, p: &str, start: &str) -> Result<Tables, String> {
    let act_body = between(modtext, &format!("const {p}ACTION: &["), "];").ok_or("no ACTION table")?;
    let act_body = &act_body[act_body.find("&[").ok_or("ACTION: no &[")? + 2..];
    let action = parse_int_array(act_body)?;
    let idx_expr = between(modtext, &format!("{p}ACTION[(state as usize)"), "]").ok_or("no ACTION index expr")?;
    let idx_expr = idx_expr.trim();
    let k: usize = if idx_expr == "+ integer" {
        1
    } else {
        let r = idx_expr.strip_prefix("*").and_then(|x| x.trim().strip_suffix("+ integer")).ok_or_else(|| format!("ACTION index expr `{}`", idx_expr))?;
        r.trim().parse().map_err(|_| format!("ACTION columns `{}`", r))?
    };
    let eof_body = between(modtext, &format!("const {p}EOF_ACTION: &["), "];").ok_or("no EOF_ACTION table")?;
    let eof_body = &eof_body[eof_body.find("&[").ok_or("EOF_ACTION: no &[")? + 2..];
    let eof_action = parse_int_array(eof_body)?;
    let nstates = eof_action.len();
    if action.len() != nstates * k {
        return Err(format!("len(ACTION)={} != states {} x K {}", action.len(), nstates, k));
    }
    // goto
    let goto_fn = between(modtext, &format!("fn {p}goto(state:"), "\n    }\n").ok_or("no goto fn")?;
    let gb = &goto_fn[goto_fn.find("match nt {").ok_or("goto: no match nt")? + "match nt {".len()..];
    let gb = gb.trim_end();
    let gb = gb.strip_suffix('}').ok_or("goto: no closing brace")?;
    let goto = parse_goto(gb)?;
    for (ov, d) in &goto {
        for (_, _, t) in ov {
            if *t < 0 || *t as usize >= nstates {
                return Err("goto target out of range".into());
            }
        }
        if *d >= nstates as i32 {
            return Err("goto default out of range".into());
        }
    }
    // terminals
    let term_body = between(modtext, &format!("const {p}TERMINAL: &[&str] = &["), "\n    ];").ok_or("no TERMINAL list")?;
    let mut terminals = vec![];
    for line in term_body.lines() {
        let l = line.trim();
        if l.is_empty() {
            continue;
        }
        let inner = l.strip_prefix("r###\"").and_then(|x| x.strip_suffix("\"###,")).ok_or_else(|| format!("terminal line `{}`", l))?;
        terminals.push(inner.to_string());
    }
    // error column
    let ea = between(modtext, "fn error_action(&self, state:", "}").ok_or("no error_action")?;
    let ea_args = between(ea, &format!("{p}action(state, "), ")").ok_or("error_action: no call")?;
    let error_col: usize = if let Some((a, b)) = ea_args.split_once('-') {
        a.trim().parse::<usize>().map_err(|_| "error col")? - b.trim().parse::<usize>().map_err(|_| "error col")?
    } else {
        ea_args.trim().parse().map_err(|_| "error col")?
    };
    let uer = between(modtext, "fn uses_error_recovery(&self) -> bool {", "}").ok_or("no uses_error_recovery")?;
    let uses_error_recovery = match uer.trim() {
        "true" => true,
        "false" => false,
        o => return Err(format!("uses_error_recovery body `{}`", o)),
    };
    // simulate_reduce
    let sr = between(modtext, &format!("fn {p}simulate_reduce<"), "_ => panic!(\"invalid reduction index").ok_or("no simulate_reduce")?;
    let sr = &sr[sr.find(&format!("match {p}reduce_index {{")).ok_or("simulate_reduce: no match")?..];
    let mut reduces: Vec<Reduce> = vec![];
    let lines: Vec<&str> = sr.lines().map(|l| l.trim()).collect();
    let mut i = 1;
    while i < lines.len() {
        let l = lines[i];
        if l.is_empty() {
            i += 1;
            continue;
        }
        if let Some((idx, rhs)) = l.split_once("=>") {
            let idx: usize = idx.trim().parse().map_err(|_| format!("simulate_reduce arm `{}`", l))?;
            if idx != reduces.len() {
                return Err("simulate_reduce arms out of order".into());
            }
            let rhs = rhs.trim();
            if rhs.ends_with("SimulatedReduce::Accept,") {
                reduces.push(Reduce::Accept);
                i += 1;
            } else if rhs == "{" {
                // next lines: ...Reduce {, states_to_pop: a,, nonterminal_produced: b,, }, }
                let pop = lines[i + 2].strip_prefix("states_to_pop:").ok_or("states_to_pop")?.trim().trim_end_matches(',').parse().map_err(|_| "pop")?;
                let nt = lines[i + 3].strip_prefix("nonterminal_produced:").ok_or("nonterminal_produced")?.trim().trim_end_matches(',').parse().map_err(|_| "nt")?;
                reduces.push(Reduce::Reduce { pop, nt });
                i += 6;
            } else {
                return Err(format!("simulate_reduce arm `{}`", l));
            }
        } else {
            return Err(format!("simulate_reduce line `{}`", l));
        }
    }
    // production comments
    let mut prod_text: Vec<Option<(String, Vec<String>)>> = vec![None; reduces.len()];
    let parse_prod = |c: &str| -> Option<(String, Vec<String>)> {
        let c = c.trim().strip_prefix("//")?.trim();
        let (lhs, rest) = c.split_once(" = ")?;
        let rest = rest.trim();
        // production text ends with `=> ActionFn(k);`
        let j = rest.rfind("=> ActionFn(")?;
        let syms = rest[..j].trim();
        let v: Vec<String> = if syms.is_empty() { vec![] } else { split_top(syms) };
        Some((lhs.trim().to_string(), v))
    };
    for ridx in 0..reduces.len() {
        let key = format!("fn {p}reduce{ridx}<");
        if let Some(pos) = modtext.find(&key) {
            let after = &modtext[pos..];
            if let Some(cl) = after.lines().find(|l| l.trim_start().starts_with("// ") && l.contains("=> ActionFn(")) {
                prod_text[ridx] = parse_prod(cl);
            }
        }
    }
    // inline arms in __reduce (start productions)
    if let Some(rb) = between(modtext, &format!("let ({p}pop_states, {p}nonterminal) = match {p}action {{"), "_ => panic!(\"invalid action code") {
        let ls: Vec<&str> = rb.lines().collect();
        for w in 0..ls.len().saturating_sub(1) {
            let l = ls[w].trim();
            if let Some(idx) = l.strip_suffix("=> {") {
                if let Ok(idx) = idx.trim().parse::<usize>() {
                    let nx = ls[w + 1].trim();
                    if nx.starts_with("// ") && nx.contains("=> ActionFn(") && idx < prod_text.len() && prod_text[idx].is_none() {
                        prod_text[idx] = parse_prod(nx);
                    }
                }
            }
        }
    }
    for (ridx, r) in reduces.iter().enumerate() {
        match (r, &prod_text[ridx]) {
            (Reduce::Reduce { pop, .. }, Some((_, syms))) => {
                if *pop != syms.len() {
                    return Err(format!("reduce {}: pop {} != {} symbols in `{:?}`", ridx, pop, syms.len(), syms));
                }
            }
            (Reduce::Accept, _) => {}
            (_, None) => return Err(format!("reduce {} has no production comment", ridx)),
        }
    }
    // every reduce index referenced in tables has info
    for a in action.iter().chain(eof_action.iter()) {
        if *a < 0 && (-(a + 1)) as usize >= reduces.len() {
            return Err("table references unknown reduction".into());
        }
        if *a > 0 && (*a - 1) as usize >= nstates {
            return Err("table shifts to unknown state".into());
        }
    }
    // token_to_integer
    let tti = between(modtext, &format!("fn {p}token_to_integer<"), "_ => None,").ok_or("no token_to_integer")?;
    let tti = &tti[tti.find(&format!("match {p}token {{")).ok_or("token_to_integer: no match")? + format!("match {p}token {{").len()..];
    let mut token_index = vec![];
    for line in tti.lines() {
        let l = line.trim();
        if l.is_empty() {
            continue;
        }
        let (pat, rhs) = l.rsplit_once(" if true => Some(").ok_or_else(|| format!("token_to_integer arm `{}`", l))?;
        let idx: usize = rhs.trim_end_matches("),").parse().map_err(|_| format!("token_to_integer idx `{}`", l))?;
        token_index.push((pat.trim().to_string(), idx));
    }
    Ok(Tables { start: start.to_string(), prefix: p.to_string(), k, nstates, action, eof_action, goto, terminals, error_col, uses_error_recovery, reduces, prod_text, token_index })
}

/// split `A, "a", "b"` at top-level `, ` (terminals are quoted; quotes may contain commas)
fn split_top(s: &str) -> Vec<String> {
    let mut out = vec![];
    let mut cur = String::new();
    let mut in_q = false;
    let mut depth = 0i32;
    let cs: Vec<char> = s.chars().collect();
    let mut i = 0;
    while i < cs.len() {
        let c = cs[i];
        if in_q {
            cur.push(c);
            if c == '\\' && i + 1 < cs.len() {
                cur.push(cs[i + 1]);
                i += 1;
            } else if c == '"' {
                in_q = false;
            }
        } else if c == '"' {
            in_q = true;
            cur.push(c);
        } else if c == '<' || c == '(' {
            depth += 1;
            cur.push(c);
        } else if c == '>' || c == ')' {
            depth -= 1;
            cur.push(c);
        } else if c == ',' && depth == 0 {
            out.push(cur.trim().to_string());
            cur.clear();
        } else {
            cur.push(c);
        }
        i += 1;
    }
    if !cur.trim().is_empty() {
        out.push(cur.trim().to_string());
    }
    out
}

pub fn lift(text: &str) -> Result<Lifted, String> {
    let mut parsers = vec![];
    let mut pos = 0;
    while let Some(off) = text[pos..].find("\nmod ") {
        let at = pos + off + 1;
        let line_end = text[at..].find('\n').map(|x| x + at).unwrap_or(text.len());
        let line = &text[at..line_end];
        pos = line_end;
        // mod {p}parse{p}{Start} {
        let name = line.strip_prefix("mod ").and_then(|x| x.strip_suffix(" {")).unwrap_or("");
        let Some(pi) = name.find("parse") else { continue };
        let p = &name[..pi];
        if p.is_empty() || !p.chars().all(|c| c == '_') {
            continue;
        }
        let rest = &name[pi + 5..];
        let Some(start) = rest.strip_prefix(p) else { continue };
        let end = text[at..].find("\n}\n").map(|x| x + at).ok_or("module end not found")?;
        let modtext = &text[at..end];
        if !modtext.contains(&format!("const {p}ACTION")) {
            return Err(format!("module for `{}` is not table-driven", start));
        }
        parsers.push(lift_parser(modtext, p, start).map_err(|e| format!("lifting parser `{}`: {}", start, e))?);
        pos = end;
    }
    if parsers.is_empty() {
        return Err("no table-driven parser module found".into());
    }
    let lexer = lift_lexer(text)?;
    Ok(Lifted { parsers, lexer })
}
