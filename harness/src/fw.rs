//! Framework: sharded workers, partial results, merging, known findings, evidence, exit codes.
//!
//! A check is a function `fn(&mut Ctx)` that enumerates its (deterministic) case space and
//! handles the cases with `index % nshards == shard`. The parent process spawns one worker
//! process per shard (LALRPOP uses a process-global environment variable and thread-locals,
//! so workers are single-threaded processes), merges their `Partial`s, applies the
//! known-findings file, writes replay files and the evidence file and sets the exit code:
//! 0 = held (possibly with KNOWN-FINDING lines), 1 = VIOLATION, 2 = machinery error.

use serde::{Deserialize, Serialize};
use serde_json::{Value, json};
use sha3::{Digest, Sha3_256};
use std::collections::BTreeMap;
use std::io::Write;
use std::path::{Path, PathBuf};
use std::process::Command;
use std::sync::atomic::{AtomicU64, Ordering};
use std::time::Instant;

#[derive(Clone, Copy, PartialEq, Eq, Debug)]
pub enum Tier {
    Quick,
    Thorough,
}
impl Tier {
    pub fn name(self) -> &'static str {
        match self {
            Tier::Quick => "quick",
            Tier::Thorough => "thorough",
        }
    }
    pub fn pick<T>(self, q: T, t: T) -> T {
        match self {
            Tier::Quick => q,
            Tier::Thorough => t,
        }
    }
}

#[derive(Serialize, Deserialize, Clone, Debug)]
pub struct Viol {
    pub class: String,
    pub summary: String,
    pub case: Value,
}

#[derive(Serialize, Deserialize, Default, Debug)]
pub struct Partial {
    pub counters: BTreeMap<String, u64>,
    pub maxima: BTreeMap<String, u64>,
    pub samples: Vec<Value>,
    pub violations: Vec<Viol>,
    pub machinery_errors: Vec<String>,
    pub notes: BTreeMap<String, Value>,
}

impl Partial {
    pub fn merge(&mut self, o: Partial) {
        for (k, v) in o.counters {
            *self.counters.entry(k).or_insert(0) += v;
        }
        for (k, v) in o.maxima {
            let e = self.maxima.entry(k).or_insert(0);
            *e = (*e).max(v);
        }
        for s in o.samples {
            if self.samples.len() < 8 {
                self.samples.push(s);
            }
        }
        self.violations.extend(o.violations);
        self.machinery_errors.extend(o.machinery_errors);
        for (k, v) in o.notes {
            self.notes.entry(k).or_insert(v);
        }
    }
    pub fn get(&self, k: &str) -> u64 {
        self.counters.get(k).copied().unwrap_or(0)
    }
}

pub struct Ctx {
    pub id: String,
    pub tier: Tier,
    pub seed: u64,
    pub shard: usize,
    pub nshards: usize,
    pub scratch: PathBuf,
    pub p: Partial,
    skip: BTreeMap<u64, String>,
    progress: Option<std::fs::File>,
    detail_path: Option<PathBuf>,
    pub replay: Option<Value>,
}

/// Budget (ms) for one case, measured in CPU time of the worker process: a generator or parser
/// that loops burns CPU, a worker that is merely starved by other load on the machine does not
/// (a wall-clock budget made busy machines report hangs that were none). The wall-clock limit
/// is WALL_FACTOR times the budget; it catches a case that blocks without using CPU.
/// The watchdog thread exits the worker with code 3 when either is exceeded.
pub static CASE_BUDGET_MS: AtomicU64 = AtomicU64::new(60_000);
const WALL_FACTOR: u64 = 30;
static CASE_STARTED_MS: AtomicU64 = AtomicU64::new(0);
static CASE_STARTED_CPU_MS: AtomicU64 = AtomicU64::new(0);
fn cpu_ms() -> u64 {
    let mut ts = libc::timespec { tv_sec: 0, tv_nsec: 0 };
    unsafe { libc::clock_gettime(libc::CLOCK_PROCESS_CPUTIME_ID, &mut ts) };
    ts.tv_sec as u64 * 1000 + ts.tv_nsec as u64 / 1_000_000
}
static T0: std::sync::OnceLock<Instant> = std::sync::OnceLock::new();
fn now_ms() -> u64 {
    T0.get_or_init(Instant::now).elapsed().as_millis() as u64 + 1
}

impl Ctx {
    pub fn mine(&self, idx: u64) -> bool {
        (idx % self.nshards as u64) as usize == self.shard
    }
    /// Announce a case; returns false if this case is to be skipped because an earlier run
    /// of this shard died in it (it is then recorded by the parent as hang/crash).
    pub fn begin_case(&mut self, idx: u64) -> bool {
        if self.skip.contains_key(&idx) {
            return false;
        }
        if let Some(f) = self.progress.as_mut() {
            use std::os::unix::fs::FileExt;
            let _ = f.write_all_at(format!("{:020}", idx).as_bytes(), 0);
        }
        CASE_STARTED_CPU_MS.store(cpu_ms(), Ordering::SeqCst);
        CASE_STARTED_MS.store(now_ms(), Ordering::SeqCst);
        true
    }
    /// Remember what the running case is, so that the parent can report it if the worker dies.
    pub fn case_detail(&mut self, v: &Value) {
        if let Some(p) = &self.detail_path {
            let _ = std::fs::write(p, serde_json::to_string(v).unwrap_or_default());
        }
    }
    pub fn end_case(&mut self) {
        CASE_STARTED_MS.store(0, Ordering::SeqCst);
    }
    pub fn count(&mut self, k: &str) {
        *self.p.counters.entry(k.to_string()).or_insert(0) += 1;
    }
    pub fn add(&mut self, k: &str, n: u64) {
        *self.p.counters.entry(k.to_string()).or_insert(0) += n;
    }
    pub fn max(&mut self, k: &str, n: u64) {
        let e = self.p.maxima.entry(k.to_string()).or_insert(0);
        *e = (*e).max(n);
    }
    pub fn sample(&mut self, v: Value) {
        if self.p.samples.len() < 3 {
            self.p.samples.push(v);
        }
    }
    pub fn violation(&mut self, class: &str, summary: impl Into<String>, case: Value) {
        // keep memory bounded: at most 200 per shard are kept verbatim, the rest counted
        self.count("violations_raised");
        if self.p.violations.len() < 200 {
            self.p.violations.push(Viol { class: class.to_string(), summary: summary.into(), case });
        }
    }
    pub fn machinery(&mut self, msg: impl Into<String>) {
        let m = msg.into();
        if self.p.machinery_errors.len() < 50 {
            self.p.machinery_errors.push(m);
        }
    }
    pub fn note(&mut self, k: &str, v: Value) {
        self.p.notes.insert(k.to_string(), v);
    }
}

pub struct CheckDef {
    pub id: &'static str,
    pub level: &'static str,
    pub rule: &'static str,
    /// counter names mapped into the schema's keys
    pub evaluations: &'static str,
    pub nontrivial: &'static str,
    /// for model_checking: (states, transitions, traces_validated) counter names
    pub mc: Option<(&'static str, &'static str, &'static str)>,
    /// counters that must be non-zero or the run is vacuous (machinery error)
    pub require: &'static [&'static str],
    pub exhaustive: bool,
    pub assumptions: &'static [&'static str],
    pub shards: usize, // 0 = number of cpus
    pub run: fn(&mut Ctx),
    /// how to turn a crashed/hung case into a violation class (None: machinery error)
    pub crash_class: Option<&'static str>,
}

pub fn ncpus() -> usize {
    std::thread::available_parallelism().map(|n| n.get()).unwrap_or(4)
}

pub fn verif_dir() -> PathBuf {
    std::env::var("VERIF_DIR").map(PathBuf::from).unwrap_or_else(|_| PathBuf::from("/verif"))
}

pub fn sha_hex(s: &str) -> String {
    let mut h = Sha3_256::new();
    h.update(s.as_bytes());
    let o = h.finalize();
    o.iter().map(|b| format!("{:02x}", b)).collect::<String>()[..24].to_string()
}

fn start_watchdog() {
    std::thread::spawn(|| {
        loop {
            std::thread::sleep(std::time::Duration::from_millis(200));
            let st = CASE_STARTED_MS.load(Ordering::SeqCst);
            if st == 0 {
                continue;
            }
            let budget = CASE_BUDGET_MS.load(Ordering::SeqCst);
            let cpu = cpu_ms().saturating_sub(CASE_STARTED_CPU_MS.load(Ordering::SeqCst));
            if cpu > budget || now_ms() > st + budget.saturating_mul(WALL_FACTOR) {
                unsafe { libc::_exit(3) };
            }
        }
    });
}

/// Entry for a worker process.
pub fn worker_main(def: &CheckDef, args: &[String]) -> i32 {
    let mut tier = Tier::Quick;
    let mut shard = 0;
    let mut of = 1;
    let mut out = PathBuf::new();
    let mut skip = BTreeMap::new();
    let mut seed = 0;
    let mut i = 0;
    while i < args.len() {
        match args[i].as_str() {
            "--tier" => {
                tier = if args[i + 1] == "thorough" { Tier::Thorough } else { Tier::Quick };
                i += 1;
            }
            "--shard" => {
                shard = args[i + 1].parse().unwrap();
                i += 1;
            }
            "--of" => {
                of = args[i + 1].parse().unwrap();
                i += 1;
            }
            "--out" => {
                out = PathBuf::from(&args[i + 1]);
                i += 1;
            }
            "--seed" => {
                seed = args[i + 1].parse().unwrap();
                i += 1;
            }
            "--skip" => {
                for part in args[i + 1].split(',') {
                    if let Some((a, b)) = part.split_once(':') {
                        skip.insert(a.parse().unwrap(), b.to_string());
                    }
                }
                i += 1;
            }
            _ => {}
        }
        i += 1;
    }
    let scratch = out.with_extension("d");
    let _ = std::fs::remove_dir_all(&scratch);
    std::fs::create_dir_all(&scratch).unwrap();
    let progress = std::fs::File::create(out.with_extension("progress")).ok();
    let mut ctx = Ctx {
        id: def.id.to_string(),
        tier,
        seed,
        shard,
        nshards: of,
        scratch: scratch.clone(),
        p: Partial::default(),
        skip,
        progress,
        detail_path: Some(out.with_extension("detail")),
        replay: None,
    };
    // a runaway diagnostic (or generated file) must kill the worker, not fill the scratch file
    // system: files written by this worker and its children are capped at 1 GiB
    unsafe {
        let mut lim = libc::rlimit { rlim_cur: 0, rlim_max: 0 };
        if libc::getrlimit(libc::RLIMIT_FSIZE, &mut lim) == 0 {
            lim.rlim_cur = 1 << 30;
            libc::setrlimit(libc::RLIMIT_FSIZE, &lim);
        }
    }
    start_watchdog();
    (def.run)(&mut ctx);
    let _ = std::fs::remove_dir_all(&scratch);
    let s = serde_json::to_string(&ctx.p).unwrap();
    std::fs::write(&out, s).unwrap();
    0
}

struct Known {
    findings: Vec<(String, String, String)>, // (property, key, text)
}
fn load_known() -> Known {
    let mut k = Known { findings: vec![] };
    if let Ok(t) = std::fs::read_to_string(verif_dir().join("known_findings.txt")) {
        for line in t.lines() {
            let line = line.trim();
            if let Some(rest) = line.strip_prefix("finding:") {
                let mut prop = String::new();
                let mut key = String::new();
                let mut text = vec![];
                for w in rest.split_whitespace() {
                    if let Some(p) = w.strip_prefix("property=") {
                        prop = p.to_string();
                    } else if let Some(p) = w.strip_prefix("key=") {
                        key = p.to_string();
                    } else {
                        text.push(w);
                    }
                }
                k.findings.push((prop, key, text.join(" ")));
            }
        }
    }
    k
}

pub fn case_hash(v: &Viol) -> String {
    sha_hex(&format!("{}|{}", v.class, serde_json::to_string(&v.case).unwrap()))
}

/// Parent: run all shards, merge, report. Returns the process exit code.
pub fn run_check(def: &CheckDef, tier: Tier, seed: u64) -> i32 {
    let t0 = Instant::now();
    let n = if def.shards == 0 { ncpus() } else { def.shards };
    let exe = std::env::current_exe().unwrap();
    let base = PathBuf::from(format!("/dev/shm/verif-{}-{}", def.id, std::process::id()));
    let _ = std::fs::remove_dir_all(&base);
    std::fs::create_dir_all(&base).unwrap();
    let mut merged = Partial::default();
    let mut crashed: Vec<(usize, u64, String, Value)> = vec![];
    // spawn all shards
    let mut skips: Vec<BTreeMap<u64, String>> = vec![BTreeMap::new(); n];
    let mut pending: Vec<usize> = (0..n).collect();
    let mut rounds = 0;
    while !pending.is_empty() {
        rounds += 1;
        let mut children = vec![];
        for &i in &pending {
            let out = base.join(format!("s{}.json", i));
            let _ = std::fs::remove_file(&out);
            let mut c = Command::new(&exe);
            c.arg("--worker").arg(def.id).arg("--tier").arg(tier.name()).arg("--shard").arg(i.to_string()).arg("--of").arg(n.to_string()).arg("--out").arg(&out).arg("--seed").arg(seed.to_string());
            if !skips[i].is_empty() {
                let s: Vec<String> = skips[i].iter().map(|(a, b)| format!("{}:{}", a, b)).collect();
                c.arg("--skip").arg(s.join(","));
            }
            children.push((i, out, c.spawn().expect("spawn worker")));
        }
        let mut next = vec![];
        for (i, out, mut ch) in children {
            let st = ch.wait().unwrap();
            if st.success() && out.exists() {
                let p: Partial = serde_json::from_str(&std::fs::read_to_string(&out).unwrap()).unwrap();
                merged.merge(p);
            } else {
                use std::os::unix::process::ExitStatusExt;
                let why = if st.code() == Some(3) {
                    "hang".to_string()
                } else if let Some(sig) = st.signal() {
                    format!("signal{}", sig)
                } else {
                    format!("exit{}", st.code().unwrap_or(-1))
                };
                let prog = std::fs::read_to_string(out.with_extension("progress")).ok().and_then(|s| s.trim().parse::<u64>().ok());
                match prog {
                    Some(idx) if rounds < 4 && !skips[i].contains_key(&idx) => {
                        skips[i].insert(idx, why.clone());
                        let detail = std::fs::read_to_string(out.with_extension("detail")).ok().and_then(|s| serde_json::from_str::<Value>(&s).ok()).unwrap_or(Value::Null);
                        crashed.push((i, idx, why, detail));
                        next.push(i);
                    }
                    _ => merged.machinery_errors.push(format!("shard {} died ({}) without usable progress", i, why)),
                }
            }
        }
        pending = next;
    }
    let _ = std::fs::remove_dir_all(&base);
    for (shard, idx, why, detail) in &crashed {
        match def.crash_class {
            Some(cls) => merged.violations.push(Viol {
                class: format!("{}-{}", cls, if why == "hang" { "hang" } else { "crash" }),
                summary: format!("case #{} of shard {} made the worker die: {}", idx, shard, why),
                case: if detail.is_null() { json!({"case_index": idx, "shard": shard, "of": n, "tier": tier.name(), "how": why}) } else { detail.clone() },
            }),
            None => merged.machinery_errors.push(format!("case #{} of shard {} killed the worker ({})", idx, shard, why)),
        }
    }
    finish(def, tier, seed, merged, t0)
}

pub fn finish(def: &CheckDef, tier: Tier, seed: u64, mut merged: Partial, t0: Instant) -> i32 {
    let vd = verif_dir();
    let known = load_known();
    // dedupe violations by hash
    let mut seen = BTreeMap::new();
    for v in merged.violations.drain(..) {
        seen.entry(case_hash(&v)).or_insert(v);
    }
    let mut new_viol = vec![];
    let mut by_class: BTreeMap<String, u64> = BTreeMap::new();
    for v in seen.values() {
        *by_class.entry(v.class.clone()).or_insert(0) += 1;
    }
    let mut known_hits: BTreeMap<String, (String, u64)> = BTreeMap::new();
    for (h, v) in seen {
        let hit = known.findings.iter().find(|(p, k, _)| p == def.id && (k == &format!("case:{}", h) || k == &format!("class:{}", v.class)));
        match hit {
            Some((_, k, text)) => {
                let e = known_hits.entry(k.clone()).or_insert((text.clone(), 0));
                e.1 += 1;
            }
            None => new_viol.push((h, v)),
        }
    }
    for (k, (text, n)) in &known_hits {
        println!("KNOWN-FINDING: property={} key={} cases={} {}", def.id, k, n, text);
    }
    // vacuity guards
    for r in def.require {
        if merged.get(r) == 0 && merged.maxima.get(*r).copied().unwrap_or(0) == 0 {
            merged.machinery_errors.push(format!("vacuous run: counter `{}` is zero", r));
        }
    }
    if merged.samples.is_empty() {
        merged.machinery_errors.push("no samples recorded".to_string());
    }
    let mut code = 0;
    if !new_viol.is_empty() {
        code = 1;
        let dir = vd.join("replays").join(def.id);
        let _ = std::fs::create_dir_all(&dir);
        for (h, v) in new_viol.iter().take(25) {
            let path = dir.join(format!("{}.json", h));
            let body = json!({"property": def.id, "class": v.class, "summary": v.summary, "case": v.case});
            let _ = std::fs::write(&path, serde_json::to_string_pretty(&body).unwrap());
            println!("VIOLATION property={} replay={}", def.id, path.display());
            println!("  class={} {}", v.class, v.summary);
        }
        if new_viol.len() > 25 {
            println!("  ... and {} more violations (not written)", new_viol.len() - 25);
        }
    }
    if !merged.machinery_errors.is_empty() {
        for m in merged.machinery_errors.iter().take(20) {
            eprintln!("MACHINERY-ERROR: {}", m);
        }
        if code == 0 {
            code = 2;
        }
    }
    // evidence
    let mut cov = serde_json::Map::new();
    let evals = merged.get(def.evaluations);
    let nontriv = merged.get(def.nontrivial);
    cov.insert("evaluations".into(), json!(evals));
    cov.insert("distinct_nontrivial".into(), json!(nontriv));
    cov.insert("rule".into(), json!(def.rule));
    cov.insert("samples".into(), json!(merged.samples));
    if let Some((s, t, v)) = def.mc {
        cov.insert("states".into(), json!(merged.get(s)));
        cov.insert("transitions".into(), json!(merged.get(t)));
        cov.insert("traces_validated_against_impl".into(), json!(merged.get(v)));
    }
    // a check that hit one of its own caps counts it under `caps_hit`; the run is then not exhaustive
    cov.insert("exhaustive".into(), json!(def.exhaustive && merged.get("caps_hit") == 0));
    cov.insert("counters".into(), json!(merged.counters));
    cov.insert("maxima".into(), json!(merged.maxima));
    for (k, v) in &merged.notes {
        cov.insert(k.clone(), v.clone());
    }
    cov.insert("deviations_by_class".into(), json!(by_class));
    cov.insert("known_findings_hit".into(), json!(known_hits.iter().map(|(k, (_, n))| (k.clone(), *n)).collect::<BTreeMap<_, _>>()));
    let ev = json!({
        "property_id": def.id,
        "tier": tier.name(),
        "seed": seed,
        "level": def.level,
        "coverage": Value::Object(cov),
        "assumptions": def.assumptions,
        "wall_s": t0.elapsed().as_secs_f64(),
        "violations": new_viol.len(),
        "machinery_errors": merged.machinery_errors,
    });
    let edir = vd.join("evidence");
    let _ = std::fs::create_dir_all(&edir);
    std::fs::write(edir.join(format!("{}.json", def.id)), serde_json::to_string_pretty(&ev).unwrap()).unwrap();
    println!(
        "{} {}: evaluations={} nontrivial={} violations={} known={} machinery_errors={} wall={:.1}s",
        def.id,
        tier.name(),
        evals,
        nontriv,
        new_viol.len(),
        known_hits.values().map(|x| x.1).sum::<u64>(),
        merged.machinery_errors.len(),
        t0.elapsed().as_secs_f64()
    );
    let _ = std::io::stdout().flush();
    code
}

/// Replay a single case without the explorer: the check's run function is called with
/// ctx.replay = Some(case) in-process, single shard.
pub fn replay(def: &CheckDef, path: &Path) -> i32 {
    let body: Value = serde_json::from_str(&std::fs::read_to_string(path).expect("read replay")).expect("json");
    let scratch = PathBuf::from(format!("/dev/shm/verif-replay-{}", std::process::id()));
    let _ = std::fs::create_dir_all(&scratch);
    let mut ctx = Ctx {
        id: def.id.to_string(),
        tier: Tier::Quick,
        seed: 0,
        shard: 0,
        nshards: 1,
        scratch: scratch.clone(),
        p: Partial::default(),
        skip: BTreeMap::new(),
        progress: None,
        detail_path: None,
        replay: Some(body["case"].clone()),
    };
    (def.run)(&mut ctx);
    let _ = std::fs::remove_dir_all(&scratch);
    for m in &ctx.p.machinery_errors {
        eprintln!("MACHINERY-ERROR: {}", m);
    }
    if ctx.p.violations.is_empty() {
        println!("replay: property {} holds on this case", def.id);
        if ctx.p.machinery_errors.is_empty() { 0 } else { 2 }
    } else {
        for v in &ctx.p.violations {
            println!("VIOLATION property={} replay={}", def.id, path.display());
            println!("  class={} {}", v.class, v.summary);
        }
        1
    }
}
