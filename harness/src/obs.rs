//! Normalised observation of one parse, shared by Impl-T and Impl-R (DESIGN A.1).

use crate::implt::{Outcome, Run};
use serde::{Deserialize, Serialize};
use serde_json::Value;

#[derive(Clone, Debug, PartialEq, Eq, Serialize, Deserialize)]
pub struct Obs {
    /// Ok | UnrecognizedToken | UnrecognizedEof | InvalidToken | ExtraToken | User | Panic | Timeout | Died | Uncompiled
    pub kind: String,
    pub token: Option<(usize, String, usize)>,
    pub location: Option<usize>,
    pub expected: Option<Vec<String>>,
    pub user: Option<String>,
    pub value: Option<String>,
    pub pulled: usize,
    pub log: Vec<u32>,
    pub detail: Option<String>,
}

impl Obs {
    fn base(kind: &str) -> Obs {
        Obs { kind: kind.to_string(), token: None, location: None, expected: None, user: None, value: None, pulled: 0, log: vec![], detail: None }
    }
    pub fn is_ok(&self) -> bool {
        self.kind == "Ok"
    }
    pub fn is_abnormal(&self) -> bool {
        matches!(self.kind.as_str(), "Panic" | "Timeout" | "Died" | "Uncompiled" | "Garbled")
    }
    /// From a runner JSON line. Token kinds are rendered `T<k>` for extern tokens.
    pub fn from_json(v: &Value) -> Obs {
        if let Some(p) = v.get("panic") {
            let mut o = Obs::base("Panic");
            o.detail = p.as_str().map(|s| s.to_string());
            return o;
        }
        if v.get("timeout").is_some() {
            return Obs::base("Timeout");
        }
        if v.get("died").is_some() {
            let mut o = Obs::base("Died");
            o.detail = v.get("status").and_then(|s| s.as_str()).map(|s| s.to_string());
            return o;
        }
        if v.get("uncompiled").is_some() {
            return Obs::base("Uncompiled");
        }
        if v.get("garbled").is_some() {
            return Obs::base("Garbled");
        }
        let pulled = v["pulled"].as_u64().unwrap_or(0) as usize;
        let log: Vec<u32> = v["log"].as_array().map(|a| a.iter().map(|x| x.as_u64().unwrap_or(0) as u32).collect()).unwrap_or_default();
        if let Some(ok) = v.get("ok") {
            let mut o = Obs::base("Ok");
            o.value = ok.as_str().map(|s| s.to_string());
            o.pulled = pulled;
            o.log = log;
            return o;
        }
        let e = &v["err"];
        let mut o = Obs::base(e["kind"].as_str().unwrap_or("Garbled"));
        o.pulled = pulled;
        o.log = log;
        if let Some(t) = e.get("token").and_then(|t| t.as_array()) {
            let name = match &t[1] {
                Value::String(s) => s.clone(),
                other => other.to_string(),
            };
            o.token = Some((t[0].as_u64().unwrap_or(0) as usize, name, t[2].as_u64().unwrap_or(0) as usize));
        }
        o.location = e.get("location").and_then(|l| l.as_u64()).map(|l| l as usize);
        o.expected = e.get("expected").and_then(|x| x.as_array()).map(|a| a.iter().map(|s| s.as_str().unwrap_or("").to_string()).collect());
        o.user = e.get("user").and_then(|u| u.as_str()).map(|s| s.to_string());
        o
    }
    /// From an Impl-T run over extern token kinds.
    pub fn from_run(r: &Run, tree_text: impl Fn(&crate::implt::TNode) -> String) -> Obs {
        let mut o = match &r.outcome {
            Outcome::Ok(t) => {
                let mut o = Obs::base("Ok");
                o.value = Some(tree_text(t));
                o
            }
            Outcome::UnrecognizedToken { token, expected } => {
                let mut o = Obs::base("UnrecognizedToken");
                o.token = Some((token.0, format!("T{}", token.1), token.2));
                o.expected = Some(expected.clone());
                o
            }
            Outcome::UnrecognizedEof { location, expected } => {
                let mut o = Obs::base("UnrecognizedEof");
                o.location = Some(*location);
                o.expected = Some(expected.clone());
                o
            }
            Outcome::ExtraToken { token } => {
                let mut o = Obs::base("ExtraToken");
                o.token = Some((token.0, format!("T{}", token.1), token.2));
                o
            }
            Outcome::InvalidToken { location } => {
                let mut o = Obs::base("InvalidToken");
                o.location = Some(*location);
                o
            }
            Outcome::User(e) => {
                let mut o = Obs::base("User");
                o.user = Some(e.clone());
                o
            }
            Outcome::Panic(m) => {
                let mut o = Obs::base("Panic");
                o.detail = Some(m.clone());
                o
            }
        };
        o.pulled = r.pulled;
        o
    }
    /// equality for conformance: errors entirely, Ok by presence (values are Impl-R-only)
    pub fn conforms(&self, other: &Obs) -> bool {
        if self.kind != other.kind {
            return false;
        }
        if self.kind == "Ok" {
            return self.pulled == other.pulled;
        }
        if self.kind == "Panic" {
            return true;
        }
        self.token == other.token && self.location == other.location && self.expected == other.expected && self.user == other.user && self.pulled == other.pulled
    }
    /// equality for the table/ascent differential (C07): everything but `expected`
    pub fn same_modulo_expected(&self, other: &Obs) -> bool {
        self.kind == other.kind && self.token == other.token && self.location == other.location && self.user == other.user && self.value == other.value
    }
    pub fn short(&self) -> String {
        match self.kind.as_str() {
            "Ok" => format!("Ok({})", self.value.clone().unwrap_or_default()),
            "UnrecognizedToken" => format!("UnrecognizedToken{:?} expected={:?} pulled={}", self.token.clone().unwrap(), self.expected.clone().unwrap_or_default(), self.pulled),
            "UnrecognizedEof" => format!("UnrecognizedEof@{:?} expected={:?} pulled={}", self.location, self.expected.clone().unwrap_or_default(), self.pulled),
            "User" => format!("User({:?}) pulled={}", self.user, self.pulled),
            k => format!("{}{:?}{:?} {:?}", k, self.token, self.location, self.detail),
        }
    }
}

/// input rendering for the Impl-R runner: one char per token kind
pub fn input_string(kinds: &[u8]) -> String {
    kinds.iter().map(|k| (b'0' + *k) as char).collect()
}
