//! E5 `implr`: batch compiler/runner for generated parsers (Impl-R).
//!
//! A `Unit` is one generated module plus a glue function
//! `pub fn run(entry: usize, input: &str) -> String` (placed inside the same module) that
//! calls the generated parser and renders the result with the prelude helpers. Units are
//! compiled as modules of one crate with plain rustc against the lalrpop_util rlib built from
//! /repo by the harness build; jobs are (unit, entry, input) triples.

use serde_json::Value;
use std::io::{BufRead, BufReader, Write};
use std::path::{Path, PathBuf};
use std::process::{Command, Stdio};

pub struct Unit {
    pub rs: String,
    pub glue: String,
}

#[derive(Clone, Debug)]
pub struct Job {
    pub unit: usize,
    pub entry: usize,
    pub input: String,
}

pub const PRELUDE: &str = r####"
#![allow(warnings)]
extern crate lalrpop_util;
use std::fmt::Write as _;
#[derive(Clone, Debug, PartialEq)]
pub enum Tok { T0, T1, T2, T3, T4, T5, T6, T7, Mark }
#[derive(Clone, Debug, PartialEq, Default)]
pub struct Loc(pub usize);
pub trait Mk<'a> {}

pub fn esc(s: &str) -> String {
    let mut o = String::from("\"");
    for c in s.chars() {
        match c {
            '"' => o.push_str("\\\""),
            '\\' => o.push_str("\\\\"),
            '\n' => o.push_str("\\n"),
            '\t' => o.push_str("\\t"),
            '\r' => o.push_str("\\r"),
            c if (c as u32) < 0x20 => { let _ = write!(o, "\\u{:04x}", c as u32); }
            c => o.push(c),
        }
    }
    o.push('"');
    o
}

pub static PULLED: std::sync::atomic::AtomicUsize = std::sync::atomic::AtomicUsize::new(0);
thread_local! { pub static LOG: std::cell::RefCell<Vec<u32>> = std::cell::RefCell::new(Vec::new()); }
pub fn log(x: u32) { LOG.with(|l| l.borrow_mut().push(x)); }

/// input syntax for extern-token parsers: one char per token: '0'..'7' = T0..T7, 'm' = Mark,
/// 'E' = the stream yields Err("inj") at this position. Token i has span (10i+3, 10i+7).
pub fn toks(input: &str) -> Vec<Result<(usize, Tok, usize), String>> {
    input.chars().enumerate().map(|(i, c)| {
        let t = match c { '0' => Tok::T0, '1' => Tok::T1, '2' => Tok::T2, '3' => Tok::T3, '4' => Tok::T4, '5' => Tok::T5, '6' => Tok::T6, '7' => Tok::T7, 'm' => Tok::Mark, 'E' => return Err(format!("inj{}", i)), _ => panic!("bad input char") };
        Ok((10 * i + 3, t, 10 * i + 7))
    }).collect()
}
pub struct Counting<I> { pub inner: I }
impl<I: Iterator> Iterator for Counting<I> {
    type Item = I::Item;
    fn next(&mut self) -> Option<I::Item> {
        let x = self.inner.next();
        if x.is_some() { PULLED.fetch_add(1, std::sync::atomic::Ordering::SeqCst); }
        x
    }
}
pub fn counting<I: Iterator>(i: I) -> Counting<I> { Counting { inner: i } }

pub trait Show { fn show(&self) -> String; }
impl Show for usize { fn show(&self) -> String { format!("{}", self) } }
impl Show for Loc { fn show(&self) -> String { format!("{}", self.0) } }
impl Show for () { fn show(&self) -> String { "null".to_string() } }
impl Show for Tok { fn show(&self) -> String { esc(&format!("{:?}", self)) } }
impl<'a> Show for lalrpop_util::lexer::Token<'a> { fn show(&self) -> String { format!("[{},{}]", self.0, esc(self.1)) } }
impl Show for String { fn show(&self) -> String { esc(self) } }
impl<'a> Show for &'a str { fn show(&self) -> String { esc(self) } }

pub fn render<L: Show, T: Show, E: Show>(r: Result<String, lalrpop_util::ParseError<L, T, E>>) -> String {
    use lalrpop_util::ParseError::*;
    let pulled = PULLED.swap(0, std::sync::atomic::Ordering::SeqCst);
    let log: Vec<String> = LOG.with(|l| l.borrow_mut().drain(..).map(|x| x.to_string()).collect());
    let tail = format!("\"pulled\":{},\"log\":[{}]", pulled, log.join(","));
    let exp = |e: &Vec<String>| format!("[{}]", e.iter().map(|s| esc(s)).collect::<Vec<_>>().join(","));
    match r {
        Ok(v) => format!("{{\"ok\":{},{}}}", esc(&v), tail),
        Err(InvalidToken { location }) => format!("{{\"err\":{{\"kind\":\"InvalidToken\",\"location\":{}}},{}}}", location.show(), tail),
        Err(UnrecognizedEof { location, expected }) => format!("{{\"err\":{{\"kind\":\"UnrecognizedEof\",\"location\":{},\"expected\":{}}},{}}}", location.show(), exp(&expected), tail),
        Err(UnrecognizedToken { token, expected }) => format!("{{\"err\":{{\"kind\":\"UnrecognizedToken\",\"token\":[{},{},{}],\"expected\":{}}},{}}}", token.0.show(), token.1.show(), token.2.show(), exp(&expected), tail),
        Err(ExtraToken { token }) => format!("{{\"err\":{{\"kind\":\"ExtraToken\",\"token\":[{},{},{}]}},{}}}", token.0.show(), token.1.show(), token.2.show(), tail),
        Err(User { error }) => format!("{{\"err\":{{\"kind\":\"User\",\"user\":{}}},{}}}", error.show(), tail),
    }
}

fn unjson(s: &str) -> String {
    // inverse of esc for the subset the harness sends (serde_json strings)
    let mut o = String::new();
    let mut it = s.chars();
    while let Some(c) = it.next() {
        if c != '\\' { o.push(c); continue; }
        match it.next() {
            Some('n') => o.push('\n'), Some('t') => o.push('\t'), Some('r') => o.push('\r'),
            Some('"') => o.push('"'), Some('\\') => o.push('\\'), Some('/') => o.push('/'),
            Some('u') => { let h: String = (0..4).filter_map(|_| it.next()).collect(); o.push(char::from_u32(u32::from_str_radix(&h, 16).unwrap()).unwrap()); }
            _ => panic!("bad escape"),
        }
    }
    o
}

fn main() {
    std::panic::set_hook(Box::new(|_| {}));
    let stdin = std::io::stdin();
    let mut line = String::new();
    let out = std::io::stdout();
    loop {
        line.clear();
        if stdin.read_line(&mut line).unwrap() == 0 { break; }
        let l = line.trim_end_matches('\n');
        let mut parts = l.splitn(3, '\t');
        let unit: usize = parts.next().unwrap().parse().unwrap();
        let entry: usize = parts.next().unwrap().parse().unwrap();
        let raw = parts.next().unwrap();
        let input = unjson(&raw[1..raw.len() - 1]);
        PULLED.store(0, std::sync::atomic::Ordering::SeqCst);
        LOG.with(|l| l.borrow_mut().clear());
        let r = std::panic::catch_unwind(std::panic::AssertUnwindSafe(|| dispatch(unit, entry, &input)));
        let s = match r {
            Ok(s) => s,
            Err(e) => {
                let msg = if let Some(s) = e.downcast_ref::<&str>() { s.to_string() } else if let Some(s) = e.downcast_ref::<String>() { s.clone() } else { "?".to_string() };
                format!("{{\"panic\":{}}}", esc(&msg))
            }
        };
        use std::io::Write;
        let mut o = out.lock();
        writeln!(o, "{}", s).unwrap();
        o.flush().unwrap();
    }
}
"####;

pub struct RustcEnv {
    pub rlib: PathBuf,
    pub deps: PathBuf,
    /// further `--extern name=path` crates (e.g. shuttle for the C27 harness)
    pub externs: Vec<(String, PathBuf)>,
    /// further rustc flags (e.g. overflow checks)
    pub flags: Vec<String>,
}

pub fn rustc_env() -> Result<RustcEnv, String> {
    // written by bin/check after the harness build
    let p = crate::fw::verif_dir().join("target/lalrpop_util.path");
    let s = std::fs::read_to_string(&p).map_err(|e| format!("{}: {}", p.display(), e))?;
    let rlib = PathBuf::from(s.trim());
    if !rlib.exists() {
        return Err(format!("rlib {} missing", rlib.display()));
    }
    let deps = rlib.parent().unwrap().to_path_buf();
    Ok(RustcEnv { rlib, deps, externs: vec![], flags: vec![] })
}

/// dev-profile lalrpop-util (overflow checks, debug assertions) and the same checks for the
/// generated code
pub fn rustc_env_checked() -> Result<RustcEnv, String> {
    let p = crate::fw::verif_dir().join("target/lalrpop_util_debug.path");
    let s = std::fs::read_to_string(&p).map_err(|e| format!("{}: {}", p.display(), e))?;
    let rlib = PathBuf::from(s.trim());
    if !rlib.exists() {
        return Err(format!("rlib {} missing", rlib.display()));
    }
    let deps = rlib.parent().unwrap().join("deps");
    let deps = if deps.exists() { deps } else { rlib.parent().unwrap().to_path_buf() };
    Ok(RustcEnv { rlib, deps, externs: vec![], flags: vec!["-C".into(), "overflow-checks=on".into(), "-C".into(), "debug-assertions=on".into()] })
}

pub struct Built {
    pub dir: PathBuf,
    pub bin: Option<PathBuf>,
    /// per unit: None = compiled, Some(msg) = rustc rejected it
    pub unit_errors: Vec<Option<String>>,
}

fn rustc_cmd(env: &RustcEnv, dir: &Path, main: &str, out: &str, metadata_only: bool) -> Command {
    let mut c = Command::new("rustc");
    c.current_dir(dir).arg("--edition").arg("2021").arg("--crate-name").arg("implr").arg("--cap-lints").arg("allow").arg("-C").arg("debuginfo=0").arg("-C").arg("codegen-units=4").arg("--extern").arg(format!("lalrpop_util={}", env.rlib.display())).arg("-L").arg(format!("dependency={}", env.deps.display()));
    for (n, p) in &env.externs {
        c.arg("--extern").arg(format!("{}={}", n, p.display()));
    }
    for f in &env.flags {
        c.arg(f);
    }
    if metadata_only {
        c.arg("--emit=metadata").arg("--crate-type").arg("lib").arg("-o").arg(out);
    } else {
        c.arg("--crate-type").arg("bin").arg("-o").arg(out);
    }
    c.arg(main);
    c.stdout(Stdio::piped()).stderr(Stdio::piped());
    c
}

fn write_main(dir: &Path, name: &str, units: &[usize], standalone_lib: bool, extra: &str) {
    let mut m = String::new();
    if standalone_lib {
        m.push_str(&PRELUDE.replace("fn main()", "pub fn _main()"));
    } else {
        m.push_str(PRELUDE);
    }
    m.push_str(extra);
    for &u in units {
        m.push_str(&format!("pub mod g{u} {{ use super::*; include!(\"g{u}.rs\"); include!(\"glue{u}.rs\"); }}\n"));
    }
    m.push_str("fn dispatch(unit: usize, entry: usize, input: &str) -> String {\n    match unit {\n");
    for &u in units {
        m.push_str(&format!("        {u} => g{u}::run(entry, input),\n"));
    }
    m.push_str("        _ => panic!(\"no such unit\"),\n    }\n}\n");
    std::fs::write(dir.join(name), m).unwrap();
}

/// Compile the units. If the batch fails, each unit is checked alone (metadata only) to find
/// the offenders, and the batch is recompiled without them.
pub fn build(env: &RustcEnv, dir: &Path, units: &[Unit], extra: &str) -> Result<Built, String> {
    let _ = std::fs::create_dir_all(dir);
    for (i, u) in units.iter().enumerate() {
        // the first two lines of a generated file are `//` comments; inner attributes of the
        // grammar (`#![..]`) would not be allowed after an include!, units that use them must
        // wrap themselves.
        std::fs::write(dir.join(format!("g{i}.rs")), &u.rs).unwrap();
        std::fs::write(dir.join(format!("glue{i}.rs")), &u.glue).unwrap();
    }
    let mut unit_errors: Vec<Option<String>> = vec![None; units.len()];
    let all: Vec<usize> = (0..units.len()).collect();
    write_main(dir, "main.rs", &all, false, extra);
    let o = rustc_cmd(env, dir, "main.rs", "prog", false).output().map_err(|e| format!("rustc: {}", e))?;
    if o.status.success() {
        return Ok(Built { dir: dir.to_path_buf(), bin: Some(dir.join("prog")), unit_errors });
    }
    // find offenders
    let mut good = vec![];
    for i in 0..units.len() {
        write_main(dir, "one.rs", &[i], true, extra);
        let o = rustc_cmd(env, dir, "one.rs", "one.rmeta", true).output().map_err(|e| format!("rustc: {}", e))?;
        if o.status.success() {
            good.push(i);
        } else {
            let msg = String::from_utf8_lossy(&o.stderr);
            let first: Vec<&str> = msg.lines().filter(|l| l.starts_with("error")).take(3).collect();
            unit_errors[i] = Some(first.join(" | "));
        }
    }
    if good.len() == units.len() {
        return Err(format!("batch failed but every unit compiles alone: {}", String::from_utf8_lossy(&o.stderr).lines().take(8).collect::<Vec<_>>().join(" / ")));
    }
    if good.is_empty() {
        return Ok(Built { dir: dir.to_path_buf(), bin: None, unit_errors });
    }
    write_main(dir, "main.rs", &good, false, extra);
    let o = rustc_cmd(env, dir, "main.rs", "prog", false).output().map_err(|e| format!("rustc: {}", e))?;
    if !o.status.success() {
        return Err(format!("second batch failed: {}", String::from_utf8_lossy(&o.stderr).lines().take(8).collect::<Vec<_>>().join(" / ")));
    }
    Ok(Built { dir: dir.to_path_buf(), bin: Some(dir.join("prog")), unit_errors })
}

/// Run jobs; returns one JSON value per job (`{"timeout":true}` / `{"died":..}` for jobs that
/// hung or killed the runner, `{"uncompiled":true}` for jobs of rejected units).
pub fn run(built: &Built, jobs: &[Job], per_job_timeout_ms: u64) -> Vec<Value> {
    let mut results: Vec<Option<Value>> = vec![None; jobs.len()];
    for (i, j) in jobs.iter().enumerate() {
        if built.unit_errors[j.unit].is_some() || built.bin.is_none() {
            results[i] = Some(serde_json::json!({"uncompiled": true}));
        }
    }
    let Some(bin) = &built.bin else { return results.into_iter().map(|x| x.unwrap()).collect() };
    let mut next = 0usize;
    while next < jobs.len() {
        if results[next].is_some() {
            next += 1;
            continue;
        }
        let todo: Vec<usize> = (next..jobs.len()).filter(|i| results[*i].is_none()).collect();
        let mut cmd = Command::new(bin);
        cmd.stdin(Stdio::piped()).stdout(Stdio::piped()).stderr(Stdio::null());
        unsafe {
            use std::os::unix::process::CommandExt;
            cmd.pre_exec(|| {
                let lim = libc::rlimit { rlim_cur: 4 << 30, rlim_max: 4 << 30 };
                libc::setrlimit(libc::RLIMIT_AS, &lim);
                Ok(())
            });
        }
        let mut child = cmd.spawn().expect("spawn runner");
        let mut stdin = child.stdin.take().unwrap();
        let payload: String = todo.iter().map(|&i| format!("{}\t{}\t{}\n", jobs[i].unit, jobs[i].entry, serde_json::to_string(&jobs[i].input).unwrap())).collect();
        let writer = std::thread::spawn(move || {
            let _ = stdin.write_all(payload.as_bytes());
        });
        let stdout = child.stdout.take().unwrap();
        let (tx, rx) = std::sync::mpsc::channel::<String>();
        let reader = std::thread::spawn(move || {
            for line in BufReader::new(stdout).lines() {
                match line {
                    Ok(l) => {
                        if tx.send(l).is_err() {
                            break;
                        }
                    }
                    Err(_) => break,
                }
            }
        });
        let mut done = 0;
        let mut failure: Option<Value> = None;
        while done < todo.len() {
            match rx.recv_timeout(std::time::Duration::from_millis(per_job_timeout_ms)) {
                Ok(l) => {
                    let v: Value = serde_json::from_str(&l).unwrap_or_else(|_| serde_json::json!({"garbled": l}));
                    results[todo[done]] = Some(v);
                    done += 1;
                }
                Err(std::sync::mpsc::RecvTimeoutError::Timeout) => {
                    failure = Some(serde_json::json!({"timeout": true}));
                    break;
                }
                Err(std::sync::mpsc::RecvTimeoutError::Disconnected) => {
                    failure = Some(serde_json::json!({"died": true}));
                    break;
                }
            }
        }
        let _ = child.kill();
        let st = child.wait();
        let _ = writer.join();
        let _ = reader.join();
        if let Some(mut f) = failure {
            if let (Some(obj), Ok(st)) = (f.as_object_mut(), st) {
                use std::os::unix::process::ExitStatusExt;
                obj.insert("status".into(), serde_json::json!(format!("{:?}/{:?}", st.code(), st.signal())));
            }
            results[todo[done]] = Some(f);
        }
        next = todo.get(done).copied().unwrap_or(jobs.len());
    }
    results.into_iter().map(|x| x.unwrap()).collect()
}

pub fn shuttle_rlib() -> Result<PathBuf, String> {
    let p = crate::fw::verif_dir().join("target/shuttle.path");
    let s = std::fs::read_to_string(&p).map_err(|e| format!("{}: {}", p.display(), e))?;
    let r = PathBuf::from(s.trim());
    if r.exists() { Ok(r) } else { Err(format!("shuttle rlib {} missing", r.display())) }
}
