//! E1: plain context-free grammars, the canonical enumerator F-cfg(S), renderers.

use serde::{Deserialize, Serialize};
use std::fmt::Write;

#[derive(Clone, Copy, PartialEq, Eq, PartialOrd, Ord, Hash, Debug, Serialize, Deserialize)]
pub enum Sym {
    T(u8),
    N(u8),
    /// the error-recovery terminal `!`
    Err,
}

pub type Rhs = Vec<Sym>;

#[derive(Clone, PartialEq, Eq, PartialOrd, Ord, Hash, Debug, Serialize, Deserialize)]
pub struct Cfg {
    pub nts: usize,
    pub terms: usize,
    /// alternatives per nonterminal
    pub alts: Vec<Vec<Rhs>>,
    /// which nonterminals are `pub`
    pub pubs: Vec<usize>,
}

pub const TNAMES: [&str; 8] = ["a", "b", "c", "d", "e", "f", "g", "h"];

impl Cfg {
    pub fn size(&self) -> usize {
        self.alts.iter().flatten().map(|r| 1 + r.len()).sum()
    }
    pub fn prods(&self) -> Vec<(usize, &Rhs)> {
        let mut v = vec![];
        for (n, a) in self.alts.iter().enumerate() {
            for r in a {
                v.push((n, r));
            }
        }
        v
    }
    pub fn uses_error(&self) -> bool {
        self.alts.iter().flatten().flatten().any(|s| *s == Sym::Err)
    }
    pub fn nt_name(n: usize) -> String {
        format!("N{}", n)
    }
    pub fn sym_text(s: Sym) -> String {
        match s {
            Sym::T(t) => format!("\"{}\"", TNAMES[t as usize]),
            Sym::N(n) => Cfg::nt_name(n as usize),
            Sym::Err => "!".to_string(),
        }
    }
    /// productive nonterminals (derive some terminal string; `!` counts as a terminal)
    pub fn productive(&self) -> Vec<bool> {
        let mut p = vec![false; self.nts];
        loop {
            let mut ch = false;
            for n in 0..self.nts {
                if !p[n] && self.alts[n].iter().any(|r| r.iter().all(|s| match s {
                    Sym::N(m) => p[*m as usize],
                    _ => true,
                })) {
                    p[n] = true;
                    ch = true;
                }
            }
            if !ch {
                return p;
            }
        }
    }
    pub fn reachable_from(&self, s: usize) -> Vec<bool> {
        let mut r = vec![false; self.nts];
        let mut st = vec![s];
        r[s] = true;
        while let Some(n) = st.pop() {
            for rhs in &self.alts[n] {
                for s in rhs {
                    if let Sym::N(m) = s {
                        if !r[*m as usize] {
                            r[*m as usize] = true;
                            st.push(*m as usize);
                        }
                    }
                }
            }
        }
        r
    }
    /// all nonterminals reachable from the first pub symbol and productive
    pub fn is_reduced(&self) -> bool {
        let p = self.productive();
        let mut r = vec![false; self.nts];
        for &s in &self.pubs {
            for (i, b) in self.reachable_from(s).iter().enumerate() {
                r[i] |= *b;
            }
        }
        p.iter().all(|x| *x) && r.iter().all(|x| *x)
    }
    pub fn describe(&self) -> String {
        let mut s = String::new();
        for (n, a) in self.alts.iter().enumerate() {
            let alts: Vec<String> = a
                .iter()
                .map(|r| if r.is_empty() { "ε".to_string() } else { r.iter().map(|s| Cfg::sym_text(*s)).collect::<Vec<_>>().join(" ") })
                .collect();
            let _ = write!(s, "{}{} = {}; ", if self.pubs.contains(&n) { "pub " } else { "" }, Cfg::nt_name(n), alts.join(" | "));
        }
        s
    }
}

#[derive(Clone, Copy, PartialEq, Eq, Debug, Serialize, Deserialize)]
pub enum Algo {
    Lane,
    Lr1,
    Lalr,
}
impl Algo {
    pub const ALL: [Algo; 3] = [Algo::Lane, Algo::Lr1, Algo::Lalr];
    pub fn name(self) -> &'static str {
        match self {
            Algo::Lane => "lane",
            Algo::Lr1 => "lr1",
            Algo::Lalr => "lalr",
        }
    }
}
#[derive(Clone, Copy, PartialEq, Eq, Debug, Serialize, Deserialize)]
pub enum Codegen {
    Table,
    Ascent,
}
impl Codegen {
    pub fn name(self) -> &'static str {
        match self {
            Codegen::Table => "table",
            Codegen::Ascent => "ascent",
        }
    }
}

pub fn grammar_attrs(algo: Algo, cg: Codegen) -> String {
    let mut s = String::new();
    if algo == Algo::Lalr {
        s.push_str("#[LALR]\n");
    }
    if cg == Codegen::Ascent {
        s.push_str("#[recursive_ascent]\n");
    }
    s
}

/// the extern block shared by all extern-token renderings (Tok is defined by the driver)
pub fn extern_block(terms: usize) -> String {
    let mut s = String::from("extern {\n    type Location = usize;\n    type Error = String;\n    enum Tok {\n");
    for t in 0..terms.max(1) {
        let _ = writeln!(s, "        \"{}\" => Tok::T{},", TNAMES[t], t);
    }
    s.push_str("    }\n}\n");
    s
}

/// Render a plain CFG with unit actions and extern tokens.
pub fn render_unit_extern(g: &Cfg, algo: Algo, cg: Codegen) -> String {
    let mut s = String::new();
    s.push_str("use super::Tok;\n");
    s.push_str(&grammar_attrs(algo, cg));
    s.push_str("grammar;\n");
    s.push_str(&extern_block(g.terms));
    render_unit_rules(g, &mut s);
    s
}

fn render_unit_rules(g: &Cfg, s: &mut String) {
    for n in 0..g.nts {
        let _ = write!(s, "{}{}: () = {{\n", if g.pubs.contains(&n) { "pub " } else { "" }, Cfg::nt_name(n));
        for r in &g.alts[n] {
            let body: Vec<String> = r.iter().map(|x| Cfg::sym_text(*x)).collect();
            let _ = writeln!(s, "    {} => (),", body.join(" "));
        }
        s.push_str("};\n");
    }
}

/// Render with the built-in lexer (terminals are the quoted literals).
pub fn render_unit_intern(g: &Cfg, algo: Algo, cg: Codegen) -> String {
    let mut s = String::new();
    s.push_str(&grammar_attrs(algo, cg));
    s.push_str("grammar;\n");
    render_unit_rules(g, &mut s);
    s
}

// ---------------------------------------------------------------------------------------
// F-cfg(S): all CFGs with <= max_nts nonterminals, <= max_terms terminals,
// size sum(1+|rhs|) <= S, rhs length <= 4, every nonterminal has >= 1 alternative, alternatives
// of a nonterminal are distinct, modulo renaming of nonterminals (N0 fixed) and terminals.

fn all_rhs(nts: usize, terms: usize, maxlen: usize) -> Vec<Rhs> {
    let mut syms = vec![];
    for t in 0..terms {
        syms.push(Sym::T(t as u8));
    }
    for n in 0..nts {
        syms.push(Sym::N(n as u8));
    }
    let mut out: Vec<Rhs> = vec![vec![]];
    let mut layer: Vec<Rhs> = vec![vec![]];
    for _ in 0..maxlen {
        let mut nl = vec![];
        for r in &layer {
            for s in &syms {
                let mut x = r.clone();
                x.push(*s);
                nl.push(x);
            }
        }
        out.extend(nl.iter().cloned());
        layer = nl;
    }
    // order: by length then lexicographic
    out.sort_by(|a, b| (a.len(), a).cmp(&(b.len(), b)));
    out
}

fn permute(g: &Cfg, np: &[u8], tp: &[u8]) -> Vec<Vec<Rhs>> {
    let mut alts = vec![vec![]; g.nts];
    for n in 0..g.nts {
        let mut a: Vec<Rhs> = g.alts[n]
            .iter()
            .map(|r| {
                r.iter()
                    .map(|s| match s {
                        Sym::T(t) => Sym::T(tp[*t as usize]),
                        Sym::N(m) => Sym::N(np[*m as usize]),
                        Sym::Err => Sym::Err,
                    })
                    .collect()
            })
            .collect();
        a.sort_by(|a, b| (a.len(), a).cmp(&(b.len(), b)));
        alts[np[n] as usize] = a;
    }
    alts
}

fn perms(n: usize, fix0: bool) -> Vec<Vec<u8>> {
    let mut out = vec![];
    let mut p: Vec<u8> = (0..n as u8).collect();
    fn rec(p: &mut Vec<u8>, k: usize, out: &mut Vec<Vec<u8>>) {
        if k == p.len() {
            out.push(p.clone());
            return;
        }
        for i in k..p.len() {
            p.swap(k, i);
            rec(p, k + 1, out);
            p.swap(k, i);
        }
    }
    rec(&mut p, if fix0 && n > 0 { 1 } else { 0 }, &mut out);
    out
}

pub fn is_canonical(g: &Cfg) -> bool {
    let key = |alts: &Vec<Vec<Rhs>>| -> Vec<Vec<(usize, Rhs)>> { alts.iter().map(|a| a.iter().map(|r| (r.len(), r.clone())).collect()).collect() };
    let me = key(&g.alts);
    for np in perms(g.nts, true) {
        for tp in perms(g.terms, false) {
            let o = permute(g, &np, &tp);
            if key(&o) < me {
                return false;
            }
        }
    }
    true
}

/// Enumerate F-cfg(S) in a fixed order, calling `f` for each grammar (single pub N0).
pub fn enum_fcfg(max_size: usize, max_nts: usize, max_terms: usize, f: &mut dyn FnMut(&Cfg)) {
    for nts in 1..=max_nts {
        for terms in 0..=max_terms {
            let rhs = all_rhs(nts, terms, 4);
            let mut cur: Vec<Vec<Rhs>> = vec![vec![]; nts];
            rec_nt(0, nts, terms, &rhs, max_size, &mut cur, f);
        }
    }
}

fn rec_nt(n: usize, nts: usize, terms: usize, rhs: &[Rhs], budget: usize, cur: &mut Vec<Vec<Rhs>>, f: &mut dyn FnMut(&Cfg)) {
    if n == nts {
        // all terminals used, all nonterminals other than N0 ... (unreachable allowed)
        let mut used = vec![false; terms];
        for r in cur.iter().flatten() {
            for s in r {
                if let Sym::T(t) = s {
                    used[*t as usize] = true;
                }
            }
        }
        if !used.iter().all(|x| *x) {
            return;
        }
        let g = Cfg { nts, terms, alts: cur.clone(), pubs: vec![0] };
        if is_canonical(&g) {
            f(&g);
        }
        return;
    }
    // remaining nonterminals need at least size 1 each
    let reserve = nts - n - 1;
    rec_alts(n, nts, terms, rhs, 0, budget, reserve, cur, f);
}

fn rec_alts(n: usize, nts: usize, terms: usize, rhs: &[Rhs], from: usize, budget: usize, reserve: usize, cur: &mut Vec<Vec<Rhs>>, f: &mut dyn FnMut(&Cfg)) {
    if !cur[n].is_empty() {
        rec_nt(n + 1, nts, terms, rhs, budget, cur, f);
    }
    for i in from..rhs.len() {
        let cost = 1 + rhs[i].len();
        if cost + reserve > budget {
            // rhs sorted by length: later ones cost at least as much
            break;
        }
        cur[n].push(rhs[i].clone());
        rec_alts(n, nts, terms, rhs, i + 1, budget - cost, reserve, cur, f);
        cur[n].pop();
    }
}

/// F-ctx: the structured family around LR(1)-but-not-LALR(1) shapes (DESIGN §4).
/// start alternatives  S -> x_i N_j y_ij  for every subset (size >= 3) of the (i,j) pairs,
/// i in contexts, j in reducers; all reducers have the same body.
pub fn enum_fctx(full: bool, f: &mut dyn FnMut(&Cfg)) {
    // terminals: 0=a 1=b 2=c 3=d ; bodies over c
    let bodies: Vec<Box<dyn Fn(u8) -> Vec<Rhs>>> = vec![
        Box::new(|_j| vec![vec![Sym::T(2)]]),
        Box::new(|_j| vec![vec![Sym::T(2), Sym::T(2)]]),
        Box::new(|j| vec![vec![Sym::T(2)], vec![Sym::T(2), Sym::N(j)]]),
        Box::new(|j| vec![vec![Sym::T(2)], vec![Sym::N(j), Sym::T(2)]]),
        Box::new(|_j| vec![vec![]]),
        // bodies that start or end with a shared nonterminal P (index 3, P = c): the states to be
        // split by context are then entered over a nonterminal (goto) edge, not a shift
        Box::new(|_j| vec![vec![Sym::N(3), Sym::T(2)]]),
        Box::new(|_j| vec![vec![Sym::T(2), Sym::N(3)]]),
        Box::new(|_j| vec![vec![Sym::N(3)]]),
    ];
    let nctx = 2usize;
    let nred = 2usize;
    let pairs: Vec<(usize, usize)> = (0..nctx).flat_map(|i| (0..nred).map(move |j| (i, j))).collect();
    // y in {eps, a, b, d?}
    let ys: Vec<Option<u8>> = if full { vec![None, Some(0), Some(1), Some(3)] } else { vec![None, Some(0), Some(1)] };
    for (bi, body) in bodies.iter().enumerate() {
        let _ = bi;
        for mask in 1u32..(1 << pairs.len()) {
            if (mask.count_ones() as usize) < 3 {
                continue;
            }
            let chosen: Vec<(usize, usize)> = pairs.iter().enumerate().filter(|(k, _)| mask & (1 << k) != 0).map(|(_, p)| *p).collect();
            // x_i fixed to a, b (contexts distinct)
            let m = chosen.len();
            let total = ys.len().pow(m as u32);
            for code in 0..total {
                let mut c = code;
                let mut s_alts: Vec<Rhs> = vec![];
                for &(i, j) in &chosen {
                    let y = ys[c % ys.len()];
                    c /= ys.len();
                    let mut r = vec![Sym::T(i as u8), Sym::N(1 + j as u8)];
                    if let Some(t) = y {
                        r.push(Sym::T(t));
                    }
                    s_alts.push(r);
                }
                let mut dedup = s_alts.clone();
                dedup.sort();
                dedup.dedup();
                if dedup.len() != s_alts.len() {
                    continue;
                }
                let mut alts = vec![s_alts];
                for j in 0..nred {
                    alts.push(body(1 + j as u8));
                }
                let uses_p = alts.iter().flatten().flatten().any(|s| *s == Sym::N(3));
                if uses_p {
                    alts.push(vec![vec![Sym::T(2)]]);
                }
                let g = Cfg { nts: alts.len(), terms: 4, alts, pubs: vec![0] };
                f(&g);
            }
        }
    }
}

/// F-opt: grammars whose recursive-ascent parser has states with *optional* stack slots (a
/// successor state may or may not consume the top of the stack: items `X = A B (*) C` next to
/// `Y = B (*) C`) in which an empty production is reduced, also with end-of-input as lookahead
/// (really, or because LALR/lane merging put it there). F-cfg(S) is too small to contain them.
pub fn enum_fopt(f: &mut dyn FnMut(&Cfg)) {
    use Sym::{N, T};
    let mut emit = |alts: Vec<Vec<Rhs>>, terms: usize| {
        let g = Cfg { nts: alts.len(), terms, alts, pubs: vec![0] };
        f(&g);
    };
    // N0 = pre N1 [y] | pre N2 ; N1 = eps [| d] ; N2 = N1 c
    for pre in [vec![T(0)], vec![T(0), T(1)]] {
        for y in [None, Some(T(1))] {
            for rich in [false, true] {
                let mut a0 = pre.clone();
                a0.push(N(1));
                if let Some(y) = y {
                    a0.push(y);
                }
                let mut a1 = pre.clone();
                a1.push(N(2));
                let n1 = if rich { vec![vec![], vec![T(3)]] } else { vec![vec![]] };
                emit(vec![vec![a0, a1], n1, vec![vec![N(1), T(2)]]], 4);
            }
        }
    }
    // two contexts, the inner part shared: N0 = a N1 | b N1 c ; N1 = d N2 [N4] | d N3 ; N2 = eps ; N3 = N2 e ; N4 = eps | f
    for with_tail in [false, true] {
        let mut p0 = vec![T(3), N(2)];
        let mut alts = vec![vec![vec![T(0), N(1)], vec![T(1), N(1), T(2)]], vec![], vec![vec![]], vec![vec![N(2), T(4)]]];
        if with_tail {
            p0.push(N(4));
            alts.push(vec![vec![], vec![T(5)]]);
        }
        alts[1] = vec![p0, vec![T(3), N(3)]];
        emit(alts, if with_tail { 6 } else { 5 });
    }
    // the same with the empty production inside a list
    emit(vec![vec![vec![T(0), N(1)], vec![T(0), N(2)]], vec![vec![], vec![N(1), T(3)]], vec![vec![N(1), T(2)]]], 4);
}
