mod checks;
mod dg;
mod drv;
mod fw;
mod gram;
mod implr;
mod implt;
mod lang;
mod lift;
mod lrref;
mod obs;

use fw::Tier;

fn main() {
    let args: Vec<String> = std::env::args().skip(1).collect();
    if args.is_empty() {
        eprintln!("usage: vrun <id> <quick|thorough> | vrun <id> --replay <file> | vrun --list");
        std::process::exit(2);
    }
    drv::install_quiet_panic_hook();
    let defs = checks::registry();
    if args[0] == "--list" {
        for d in &defs {
            println!("{} {}", d.id, d.level);
        }
        return;
    }
    if args[0] == "--worker" {
        let def = defs.iter().find(|d| d.id == args[1]).expect("unknown check");
        std::process::exit(fw::worker_main(def, &args[2..]));
    }
    let Some(def) = defs.iter().find(|d| d.id == args[0]) else {
        eprintln!("unknown check {}", args[0]);
        std::process::exit(2);
    };
    if args.get(1).map(|s| s.as_str()) == Some("--replay") {
        std::process::exit(fw::replay(def, std::path::Path::new(&args[2])));
    }
    let tier = match std::env::var("VERIF_TIER").ok().as_deref().or(args.get(1).map(|s| s.as_str())) {
        Some("thorough") => Tier::Thorough,
        _ => Tier::Quick,
    };
    let tier = if args.get(1).map(|s| s.as_str()) == Some("thorough") { Tier::Thorough } else if args.get(1).map(|s| s.as_str()) == Some("quick") { Tier::Quick } else { tier };
    let seed = std::env::var("VERIF_SEED").ok().and_then(|s| s.parse().ok()).unwrap_or(0);
    std::process::exit(fw::run_check(def, tier, seed));
}
