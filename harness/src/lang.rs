//! E2 `lang`: bounded language oracle for plain CFGs. Independent of LALRPOP.
//!
//! Strings are packed into u64: 4 bits per symbol (terminal index + 1), little end first,
//! so length <= 15. `!` (Sym::Err) is treated as terminal index 14 where needed.

use crate::gram::{Cfg, Sym};
use std::collections::HashSet;

pub type Str = u64;
pub const ERR_T: u8 = 14;

pub fn slen(s: Str) -> usize {
    let mut n = 0;
    let mut x = s;
    while x != 0 {
        n += 1;
        x >>= 4;
    }
    n
}
pub fn cat(a: Str, b: Str) -> Str {
    a | (b << (4 * slen(a)))
}
pub fn from_slice(v: &[u8]) -> Str {
    let mut s = 0u64;
    for (i, t) in v.iter().enumerate() {
        s |= ((*t as u64) + 1) << (4 * i);
    }
    s
}
pub fn to_vec(s: Str) -> Vec<u8> {
    let mut v = vec![];
    let mut x = s;
    while x != 0 {
        v.push(((x & 15) - 1) as u8);
        x >>= 4;
    }
    v
}
pub fn prefix(s: Str, k: usize) -> Str {
    if k >= 16 { s } else { s & ((1u64 << (4 * k)) - 1) }
}

fn tsym(s: Sym) -> Option<u8> {
    match s {
        Sym::T(t) => Some(t),
        Sym::Err => Some(ERR_T),
        Sym::N(_) => None,
    }
}

pub struct Lang {
    pub n: usize,
    /// L_n(N): strings of length <= n derivable from N
    pub l: Vec<HashSet<Str>>,
    /// Pre_n(N): strings of length <= n that are a prefix of some sentence of N
    pub pre: Vec<HashSet<Str>>,
    pub productive: Vec<bool>,
}

fn concat_sets(a: &HashSet<Str>, b: &HashSet<Str>, n: usize) -> HashSet<Str> {
    let mut out = HashSet::new();
    for &x in a {
        let lx = slen(x);
        for &y in b {
            if lx + slen(y) <= n {
                out.insert(cat(x, y));
            }
        }
    }
    out
}

impl Lang {
    pub fn new(g: &Cfg, n: usize) -> Lang {
        assert!(n <= 15);
        let productive = g.productive();
        let usable = |r: &Vec<Sym>| r.iter().all(|s| match s {
            Sym::N(m) => productive[*m as usize],
            _ => true,
        });
        let mut l: Vec<HashSet<Str>> = vec![HashSet::new(); g.nts];
        loop {
            let mut changed = false;
            for nt in 0..g.nts {
                for r in &g.alts[nt] {
                    if !usable(r) {
                        continue;
                    }
                    let mut acc: HashSet<Str> = HashSet::new();
                    acc.insert(0);
                    for s in r {
                        acc = match tsym(*s) {
                            Some(t) => acc.iter().filter(|x| slen(**x) < n).map(|x| cat(*x, from_slice(&[t]))).collect(),
                            None => {
                                let Sym::N(m) = s else { unreachable!() };
                                concat_sets(&acc, &l[*m as usize], n)
                            }
                        };
                        if acc.is_empty() {
                            break;
                        }
                    }
                    for x in acc {
                        if l[nt].insert(x) {
                            changed = true;
                        }
                    }
                }
            }
            if !changed {
                break;
            }
        }
        let mut pre: Vec<HashSet<Str>> = vec![HashSet::new(); g.nts];
        for nt in 0..g.nts {
            if productive[nt] {
                pre[nt].insert(0);
            }
        }
        loop {
            let mut changed = false;
            for nt in 0..g.nts {
                for r in &g.alts[nt] {
                    if !usable(r) {
                        continue;
                    }
                    // acc = L(X1..X_{i-1}) exact up to n
                    let mut acc: HashSet<Str> = HashSet::new();
                    acc.insert(0);
                    for s in r {
                        // contributions: acc . Pre(s)
                        let add: HashSet<Str> = match tsym(*s) {
                            Some(t) => acc.iter().filter(|x| slen(**x) < n).map(|x| cat(*x, from_slice(&[t]))).collect(),
                            None => {
                                let Sym::N(m) = s else { unreachable!() };
                                concat_sets(&acc, &pre[*m as usize], n)
                            }
                        };
                        for x in add {
                            if pre[nt].insert(x) {
                                changed = true;
                            }
                        }
                        acc = match tsym(*s) {
                            Some(t) => acc.iter().filter(|x| slen(**x) < n).map(|x| cat(*x, from_slice(&[t]))).collect(),
                            None => {
                                let Sym::N(m) = s else { unreachable!() };
                                concat_sets(&acc, &l[*m as usize], n)
                            }
                        };
                        if acc.is_empty() {
                            break;
                        }
                    }
                }
            }
            if !changed {
                break;
            }
        }
        Lang { n, l, pre, productive }
    }
    pub fn accepts(&self, start: usize, s: Str) -> bool {
        self.l[start].contains(&s)
    }
    pub fn viable(&self, start: usize, s: Str) -> bool {
        self.pre[start].contains(&s)
    }
}

/// All strings over `terms` terminals up to length n, in length-lexicographic order.
pub fn all_inputs(terms: usize, n: usize) -> Vec<Vec<u8>> {
    let mut out = vec![vec![]];
    let mut layer: Vec<Vec<u8>> = vec![vec![]];
    for _ in 0..n {
        let mut nl = vec![];
        for s in &layer {
            for t in 0..terms {
                let mut x = s.clone();
                x.push(t as u8);
                nl.push(x);
            }
        }
        out.extend(nl.iter().cloned());
        layer = nl;
    }
    out
}

// ---------------------------------------------------------------------------------------
// Derivation trees.

#[derive(Clone, Debug, PartialEq, Eq)]
pub enum Tree {
    Tok(u8, usize),                 // terminal, token position in the input
    Node(usize, usize, Vec<Tree>),  // nonterminal, alternative index within nonterminal, children
}

impl Tree {
    pub fn ntoks(&self) -> usize {
        match self {
            Tree::Tok(..) => 1,
            Tree::Node(_, _, c) => c.iter().map(|t| t.ntoks()).sum(),
        }
    }
}

/// Derivation-tree counts (saturating at 2) for every (nonterminal, i, j) span of `input`,
/// by Kleene iteration of  count(N,i,j) = sum over alternatives and splits of the product of
/// the children's counts.  A cyclic derivation (N =>+ N) on a span that has a tree makes the
/// count grow until it saturates, so "count == 1" means exactly one (finite) tree.
pub struct Counts<'a> {
    g: &'a Cfg,
    input: &'a [u8],
    n: usize,
    c: Vec<u8>, // [nt][i][j]
}

impl<'a> Counts<'a> {
    fn idx(&self, nt: usize, i: usize, j: usize) -> usize {
        (nt * (self.n + 1) + i) * (self.n + 1) + j
    }
    pub fn get(&self, nt: usize, i: usize, j: usize) -> u8 {
        self.c[self.idx(nt, i, j)]
    }
    pub fn new(g: &'a Cfg, input: &'a [u8]) -> Self {
        let n = input.len();
        let mut me = Counts { g, input, n, c: vec![0; g.nts * (n + 1) * (n + 1)] };
        loop {
            let mut changed = false;
            for nt in 0..g.nts {
                for i in 0..=n {
                    for j in i..=n {
                        let mut total = 0u8;
                        for r in &g.alts[nt] {
                            total = (total + me.seq_count(r, 0, i, j)).min(2);
                        }
                        let k = me.idx(nt, i, j);
                        if total > me.c[k] {
                            me.c[k] = total;
                            changed = true;
                        }
                    }
                }
            }
            if !changed {
                break;
            }
        }
        me
    }
    fn seq_count(&self, r: &[Sym], k: usize, i: usize, j: usize) -> u8 {
        if k == r.len() {
            return if i == j { 1 } else { 0 };
        }
        match r[k] {
            Sym::T(t) => {
                if i < j && self.input[i] == t { self.seq_count(r, k + 1, i + 1, j) } else { 0 }
            }
            Sym::Err => 0,
            Sym::N(m) => {
                let mut total = 0u8;
                for mid in i..=j {
                    let a = self.get(m as usize, i, mid);
                    if a == 0 {
                        continue;
                    }
                    let b = self.seq_count(r, k + 1, mid, j);
                    total = (total + (a * b).min(2)).min(2);
                    if total >= 2 {
                        break;
                    }
                }
                total
            }
        }
    }
    /// the unique tree of (nt,i,j); call only when get(nt,i,j) == 1
    pub fn tree(&self, nt: usize, i: usize, j: usize) -> Tree {
        for (ai, r) in self.g.alts[nt].iter().enumerate() {
            if self.seq_count(r, 0, i, j) == 1 {
                let mut ch = vec![];
                let ok = self.seq_tree(r, 0, i, j, &mut ch);
                assert!(ok);
                return Tree::Node(nt, ai, ch);
            }
        }
        panic!("Counts::tree called on a span without a unique tree");
    }
    fn seq_tree(&self, r: &[Sym], k: usize, i: usize, j: usize, out: &mut Vec<Tree>) -> bool {
        if k == r.len() {
            return i == j;
        }
        match r[k] {
            Sym::T(t) => {
                if i < j && self.input[i] == t {
                    out.push(Tree::Tok(t, i));
                    if self.seq_tree(r, k + 1, i + 1, j, out) {
                        return true;
                    }
                    out.pop();
                }
                false
            }
            Sym::Err => false,
            Sym::N(m) => {
                for mid in i..=j {
                    if self.get(m as usize, i, mid) == 1 && self.seq_count(r, k + 1, mid, j) == 1 {
                        out.push(self.tree(m as usize, i, mid));
                        if self.seq_tree(r, k + 1, mid, j, out) {
                            return true;
                        }
                        out.pop();
                    }
                }
                false
            }
        }
    }
}

/// Number of distinct derivation trees (saturating at 2) of `input` from `start`.
pub fn tree_count(g: &Cfg, start: usize, input: &[u8]) -> usize {
    Counts::new(g, input).get(start, 0, input.len()) as usize
}

pub fn unique_tree(g: &Cfg, start: usize, input: &[u8]) -> Option<Tree> {
    let c = Counts::new(g, input);
    if c.get(start, 0, input.len()) == 1 { Some(c.tree(start, 0, input.len())) } else { None }
}

/// is the grammar ambiguous on some string of length <= n (witness returned)?
pub fn ambiguity_witness(g: &Cfg, start: usize, lang: &Lang) -> Option<Vec<u8>> {
    let mut strs: Vec<Str> = lang.l[start].iter().copied().collect();
    strs.sort_by_key(|s| (slen(*s), *s));
    for s in strs {
        let v = to_vec(s);
        if tree_count(g, start, &v) >= 2 {
            return Some(v);
        }
    }
    None
}
