//! E2 `lrref`: textbook canonical LR(1) and LALR(1) (by core merging). Independent of LALRPOP.
//! Items carry a single lookahead terminal; EOF is terminal index `eof = terms`, the error
//! terminal `!` (if used) is `terms + 1`.

use crate::gram::{Cfg, Sym};
use std::collections::{BTreeMap, BTreeSet};

type Item = (u16, u8, u8); // (production index, dot, lookahead)

pub struct Aug {
    pub prods: Vec<(usize, Vec<Sym>)>, // production 0 is S' -> start
    pub by_nt: Vec<Vec<u16>>,
    pub nts: usize, // including S' as index g.nts
    pub eof: u8,
    pub err: u8,
    pub nterm: usize,
    nullable: Vec<bool>,
    first: Vec<u32>, // bitset of terminals per nt
    /// variant semantics: keep closure items whose lookahead set is empty (pseudo-lookahead
    /// `none`), which is what an implementation with lookahead *sets* per item does when a
    /// nonterminal after the dot is followed by an unproductive one.
    pub keep_empty: bool,
    pub none: u8,
}

fn tidx(a: &Aug, s: Sym) -> Option<u8> {
    match s {
        Sym::T(t) => Some(t),
        Sym::Err => Some(a.err),
        Sym::N(_) => None,
    }
}

impl Aug {
    pub fn new(g: &Cfg, start: usize) -> Aug {
        let mut prods = vec![(g.nts, vec![Sym::N(start as u8)])];
        for (n, r) in g.prods() {
            prods.push((n, r.clone()));
        }
        let nts = g.nts + 1;
        let mut by_nt = vec![vec![]; nts];
        for (i, (n, _)) in prods.iter().enumerate() {
            by_nt[*n].push(i as u16);
        }
        let eof = g.terms as u8;
        let err = g.terms as u8 + 1;
        let mut a = Aug { prods, by_nt, nts, eof, err, nterm: g.terms + 3, nullable: vec![false; nts], first: vec![0; nts], keep_empty: false, none: g.terms as u8 + 2 };
        loop {
            let mut ch = false;
            for (n, r) in a.prods.clone().iter() {
                let mut all_null = true;
                let mut f = a.first[*n];
                for s in r {
                    match s {
                        Sym::N(m) => {
                            f |= a.first[*m as usize];
                            if !a.nullable[*m as usize] {
                                all_null = false;
                                break;
                            }
                        }
                        _ => {
                            f |= 1 << tidx(&a, *s).unwrap();
                            all_null = false;
                            break;
                        }
                    }
                }
                if f != a.first[*n] {
                    a.first[*n] = f;
                    ch = true;
                }
                if all_null && !a.nullable[*n] {
                    a.nullable[*n] = true;
                    ch = true;
                }
            }
            if !ch {
                break;
            }
        }
        a
    }
    /// FIRST(beta la)
    fn first_seq(&self, beta: &[Sym], la: u8) -> u32 {
        let mut f = 0u32;
        for s in beta {
            match s {
                Sym::N(m) => {
                    f |= self.first[*m as usize];
                    if !self.nullable[*m as usize] {
                        return f;
                    }
                }
                _ => {
                    return f | (1 << tidx(self, *s).unwrap());
                }
            }
        }
        f | (1 << la)
    }
    fn closure(&self, kernel: &BTreeSet<Item>) -> BTreeSet<Item> {
        let mut set = kernel.clone();
        let mut work: Vec<Item> = kernel.iter().copied().collect();
        while let Some((p, d, la)) = work.pop() {
            let rhs = &self.prods[p as usize].1;
            if (d as usize) < rhs.len() {
                if let Sym::N(m) = rhs[d as usize] {
                    let mut f = self.first_seq(&rhs[d as usize + 1..], la);
                    if f == 0 && self.keep_empty {
                        f = 1 << self.none;
                    }
                    for &q in &self.by_nt[m as usize] {
                        for t in 0..self.nterm as u8 {
                            if f & (1 << t) != 0 {
                                let it = (q, 0, t);
                                if set.insert(it) {
                                    work.push(it);
                                }
                            }
                        }
                    }
                }
            }
        }
        set
    }
}

pub struct Automaton {
    pub states: Vec<BTreeSet<Item>>,
    pub trans: Vec<BTreeMap<Sym, usize>>,
}

pub fn build_lr1(a: &Aug) -> Automaton {
    let mut k0 = BTreeSet::new();
    k0.insert((0u16, 0u8, a.eof));
    let s0 = a.closure(&k0);
    let mut states = vec![s0.clone()];
    let mut index: BTreeMap<BTreeSet<Item>, usize> = BTreeMap::new();
    index.insert(s0, 0);
    let mut trans: Vec<BTreeMap<Sym, usize>> = vec![BTreeMap::new()];
    let mut i = 0;
    while i < states.len() {
        let mut by_sym: BTreeMap<Sym, BTreeSet<Item>> = BTreeMap::new();
        for &(p, d, la) in &states[i] {
            let rhs = &a.prods[p as usize].1;
            if (d as usize) < rhs.len() {
                by_sym.entry(rhs[d as usize]).or_default().insert((p, d + 1, la));
            }
        }
        for (s, k) in by_sym {
            let c = a.closure(&k);
            let j = match index.get(&c) {
                Some(j) => *j,
                None => {
                    let j = states.len();
                    states.push(c.clone());
                    trans.push(BTreeMap::new());
                    index.insert(c, j);
                    j
                }
            };
            trans[i].insert(s, j);
        }
        i += 1;
    }
    Automaton { states, trans }
}

#[derive(Clone, Debug, PartialEq, Eq)]
pub enum Conflict {
    ShiftReduce,
    ReduceReduce,
}

/// conflicts of a set of LR(1) items (one state)
fn state_conflict(a: &Aug, items: &BTreeSet<Item>) -> Option<Conflict> {
    let mut shift: u32 = 0;
    let mut red: BTreeMap<u8, BTreeSet<u16>> = BTreeMap::new();
    for &(p, d, la) in items {
        let rhs = &a.prods[p as usize].1;
        if (d as usize) < rhs.len() {
            if let Some(t) = tidx(a, rhs[d as usize]) {
                shift |= 1 << t;
            }
        } else if la != a.none {
            red.entry(la).or_default().insert(p);
        }
    }
    for (la, ps) in &red {
        if ps.len() > 1 {
            return Some(Conflict::ReduceReduce);
        }
        if shift & (1 << la) != 0 {
            return Some(Conflict::ShiftReduce);
        }
    }
    None
}

pub fn lr1_conflict(a: &Aug, m: &Automaton) -> Option<Conflict> {
    m.states.iter().find_map(|s| state_conflict(a, s))
}

/// LALR(1): merge states with equal LR(0) cores, union the items, look for conflicts.
pub fn lalr_conflict(a: &Aug, m: &Automaton) -> Option<Conflict> {
    let mut merged: BTreeMap<BTreeSet<(u16, u8)>, BTreeSet<Item>> = BTreeMap::new();
    for s in &m.states {
        let core: BTreeSet<(u16, u8)> = s.iter().map(|(p, d, _)| (*p, *d)).collect();
        merged.entry(core).or_default().extend(s.iter().copied());
    }
    merged.values().find_map(|s| state_conflict(a, s))
}

pub struct Verdict {
    pub lr1: Option<Conflict>,
    pub lalr: Option<Conflict>,
    pub lr1_states: usize,
    pub lr0_states: usize,
}

pub fn verdict(g: &Cfg) -> Verdict {
    verdict_opt(g, false)
}
pub fn verdict_opt(g: &Cfg, keep_empty: bool) -> Verdict {
    let mut v = Verdict { lr1: None, lalr: None, lr1_states: 0, lr0_states: 0 };
    for &s in &g.pubs {
        let mut a = Aug::new(g, s);
        a.keep_empty = keep_empty;
        let m = build_lr1(&a);
        v.lr1_states += m.states.len();
        let cores: BTreeSet<BTreeSet<(u16, u8)>> = m.states.iter().map(|s| s.iter().map(|(p, d, _)| (*p, *d)).collect()).collect();
        v.lr0_states += cores.len();
        if v.lr1.is_none() {
            v.lr1 = lr1_conflict(&a, &m);
        }
        if v.lalr.is_none() {
            v.lalr = lalr_conflict(&a, &m);
        }
    }
    v
}

/// Reference LR(1) parse loop over a conflict-free automaton; returns acceptance.
/// Used only to self-check `lrref` against `lang`.
pub fn ref_parse(a: &Aug, m: &Automaton, input: &[u8]) -> bool {
    let mut stack = vec![0usize];
    let mut pos = 0;
    let mut steps = 0;
    loop {
        steps += 1;
        if steps > 10_000 {
            return false;
        }
        let la = if pos < input.len() { input[pos] } else { a.eof };
        let st = *stack.last().unwrap();
        // reduce?
        let mut red = None;
        for &(p, d, l) in &m.states[st] {
            if d as usize == a.prods[p as usize].1.len() && l == la {
                red = Some(p);
                break;
            }
        }
        if let Some(p) = red {
            if p == 0 {
                return pos == input.len();
            }
            let (nt, rhs) = &a.prods[p as usize];
            for _ in 0..rhs.len() {
                stack.pop();
            }
            let top = *stack.last().unwrap();
            match m.trans[top].get(&Sym::N(*nt as u8)) {
                Some(j) => stack.push(*j),
                None => return false,
            }
            continue;
        }
        if pos < input.len() {
            if let Some(j) = m.trans[st].get(&Sym::T(la)) {
                stack.push(*j);
                pos += 1;
                continue;
            }
        }
        return false;
    }
}
