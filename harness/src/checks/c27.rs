//! C27: generated parsers are reentrant and safe to share across threads.
//! (a) sequential reuse of one parser value over all ordered pairs/triples of inputs;
//! (b) shuttle's exhaustive DFS scheduler over 2 (and 3) threads sharing one Arc<Parser>, with
//!     scheduling points at every token pull (extern iterator) and every action;
//! (c) compile-time Send + Sync assertion on every generated parser type.
//! The harness (glue + shuttle) is compiled by rustc together with the generated modules.

use crate::drv::{self, GenOpts};
use crate::fw::{CheckDef, Ctx, Tier};
use crate::implr;
use serde_json::json;

pub fn def() -> CheckDef {
    CheckDef {
        id: "C27",
        level: "exploration",
        rule: "four parsers (extern-token and built-in-lexer grammar x table-driven and recursive-ascent), each shared as one value: (a) every ordered pair and triple of inputs from a set mixing accepted, rejected and lexically invalid inputs parsed one after another by the same parser value (one input makes an action panic: the unwound parse must leave the parser usable); (b) shuttle DfsScheduler (exhaustive below a per-job schedule cap that is reported when reached) over 2 threads x every ordered pair of inputs with <= 3 tokens and 3 threads x inputs with <= 1 token (thorough: 2 threads also on 4-5 token inputs), all sharing one Arc<Parser>, yielding to the scheduler at every token pull and every action; oracle: each result equals the fresh-parser result for that input; (c) `fn assert<T: Send + Sync>()` instantiated at every parser type. evaluations = parses; distinct_nontrivial = distinct interleavings of yield points observed by the DFS",
        evaluations: "parses",
        nontrivial: "distinct_interleavings",
        mc: None,
        require: &["parses", "schedules", "distinct_interleavings", "sequential_pairs", "three_thread_schedules"],
        exhaustive: true,
        assumptions: &["lalrpop-util and the generated code contain no atomics, locks or unsafe: interleavings are explored at token-pull/action granularity, which is where shared state (a cache or cursor hoisted into the parser value or a static) becomes observable; no memory-model exploration", "a lock held across yield points would deadlock the exploration; the per-job timeout reports it"],
        shards: 1,
        run,
        crash_class: Some("parser"),
    }
}

const G_EXTERN: &str = r#"use super::{Tok, yp};
GRAMMAR_ATTR
grammar;
extern { type Location = usize; type Error = String; enum Tok { "a" => Tok::T0, "b" => Tok::T1, "c" => Tok::T2 } }
pub S: String = { <l:@L> <i:Item*> <r:@R> => { yp(); format!("{}..{}:{}", l, r, i.join("")) } };
Item: String = { "a" => { yp(); "a".to_string() }, "b" <s:Inner> "c" => { yp(); format!("[{}]", s) } };
Inner: String = { Item* => { yp(); <>.join("") } };
"#;

const G_INTERN: &str = r##"use super::yp;
GRAMMAR_ATTR
grammar;
pub S: String = { <l:@L> <i:Item*> <r:@R> => { yp(); format!("{}..{}:{}", l, r, i.join(",")) } };
Item: String = { r"[a-z]+" => { yp(); <>.to_string() }, "(" <s:Inner> ")" => { yp(); format!("[{}]", s) }, <n:r"[0-9]+"> => { yp(); if n == "13" { panic!("unlucky number") }; format!("#{}", n) } };
Inner: String = { Item* => { yp(); <>.join(",") } };
"##;

const EXTRA: &str = r####"
extern crate shuttle;
use std::sync::{Arc, Mutex};
use std::collections::HashSet;

shuttle::thread_local! { static TID: std::cell::Cell<usize> = std::cell::Cell::new(0); }
static TRACE: Mutex<Vec<usize>> = Mutex::new(Vec::new());
static IN_SHUTTLE: std::sync::atomic::AtomicBool = std::sync::atomic::AtomicBool::new(false);

/// a scheduling point: called by the token iterator at every pull and by every action
pub fn yp() {
    if IN_SHUTTLE.load(std::sync::atomic::Ordering::SeqCst) {
        TRACE.lock().unwrap().push(TID.with(|t| t.get()));
        shuttle::thread::yield_now();
    }
}

pub struct Yielding<I> { pub inner: I }
impl<I: Iterator> Iterator for Yielding<I> {
    type Item = I::Item;
    fn next(&mut self) -> Option<I::Item> { yp(); self.inner.next() }
}

pub fn assert_send_sync<T: Send + Sync>() {}

/// explore all schedules of `n` threads, thread k parsing inputs[k] with the shared parser;
/// `parse` must be a pure function of (parser, input) if the parser is reentrant.
pub fn explore<P: Send + Sync + 'static>(parser: Arc<P>, inputs: Vec<String>, parse: fn(&P, &str) -> String, cap: usize) -> String {
    let want: Vec<String> = inputs.iter().map(|i| parse(&parser, i)).collect();
    let mismatches: Arc<Mutex<Vec<String>>> = Arc::new(Mutex::new(vec![]));
    let orders: Arc<Mutex<HashSet<Vec<usize>>>> = Arc::new(Mutex::new(HashSet::new()));
    let mut cfg = shuttle::Config::new();
    cfg.stack_size = 1 << 20;
    let runner = shuttle::Runner::new(shuttle::scheduler::DfsScheduler::new(Some(cap), false), cfg);
    IN_SHUTTLE.store(true, std::sync::atomic::Ordering::SeqCst);
    let (m2, o2, w2, i2, p2) = (mismatches.clone(), orders.clone(), want.clone(), inputs.clone(), parser.clone());
    let n = runner.run(move || {
        TRACE.lock().unwrap().clear();
        let mut hs = vec![];
        for k in 0..i2.len() {
            let (p, inp, w, m) = (p2.clone(), i2[k].clone(), w2[k].clone(), m2.clone());
            hs.push(shuttle::thread::spawn(move || {
                TID.with(|t| t.set(k + 1));
                let got = parse(&p, &inp);
                if got != w {
                    let mut mm = m.lock().unwrap();
                    if mm.len() < 3 { mm.push(format!("thread {} input {:?}: fresh {} / concurrent {} (interleaving {:?})", k, inp, w, got, TRACE.lock().unwrap().clone())); }
                }
            }));
        }
        for h in hs { h.join().unwrap(); }
        o2.lock().unwrap().insert(TRACE.lock().unwrap().clone());
    });
    IN_SHUTTLE.store(false, std::sync::atomic::Ordering::SeqCst);
    let mm = mismatches.lock().unwrap();
    format!("schedules={} capped={} interleavings={} mismatches={} {}", n, if n >= cap { 1 } else { 0 }, orders.lock().unwrap().len(), mm.len(), mm.join(" ;; "))
}

/// sequential reuse: parse a then b (then c) with ONE parser value; compare with fresh parsers
pub fn sequential<P>(mk: fn() -> P, inputs: &[String], parse: fn(&P, &str) -> String) -> String {
    let fresh: Vec<String> = inputs.iter().map(|i| parse(&mk(), i)).collect();
    let mut bad = vec![];
    let mut n = 0;
    for a in 0..inputs.len() {
        for b in 0..inputs.len() {
            let p = mk();
            let ra = parse(&p, &inputs[a]);
            let rb = parse(&p, &inputs[b]);
            n += 1;
            if ra != fresh[a] || rb != fresh[b] { if bad.len() < 3 { bad.push(format!("{:?} then {:?}: {} / {}", inputs[a], inputs[b], ra, rb)); } }
            for c in 0..inputs.len() {
                let rc = parse(&p, &inputs[c]);
                n += 1;
                if rc != fresh[c] { if bad.len() < 3 { bad.push(format!("{:?},{:?} then {:?}: {}", inputs[a], inputs[b], inputs[c], rc)); } }
            }
        }
    }
    format!("sequences={} mismatches={} {}", n, bad.len(), bad.join(" ;; "))
}
"####;

fn glue(intern: bool) -> String {
    let parse_fn = if intern {
        // an action may panic (input `13`): the unwound parse must leave the parser usable
        "fn parse_one(p: &SParser, input: &str) -> String { match std::panic::catch_unwind(std::panic::AssertUnwindSafe(|| format!(\"{:?}\", p.parse(input)))) { Ok(s) => s, Err(_) => \"PANICKED\".to_string() } }\n"
    } else {
        "fn parse_one(p: &SParser, input: &str) -> String { let toks = toks(input); format!(\"{:?}\", p.parse(Yielding { inner: toks.into_iter() })) }\n"
    };
    format!(
        r#"{parse_fn}
pub fn run(entry: usize, input: &str) -> String {{
    assert_send_sync::<SParser>();
    let inputs: Vec<String> = input.split('|').map(|s| s.to_string()).collect();
    let r = match entry {{
        0 => sequential(SParser::new, &inputs, parse_one),
        cap => explore(Arc::new(SParser::new()), inputs, parse_one, cap),
    }};
    format!("{{{{\"ok\":{{}},\"pulled\":0,\"log\":[]}}}}", esc(&r))
}}
"#
    )
}

fn run(ctx: &mut Ctx) {
    let dir = drv::scratch_sub(&ctx.scratch.clone(), "c27");
    let thorough = ctx.tier == Tier::Thorough;
    let mut env = match implr::rustc_env() {
        Ok(e) => e,
        Err(e) => {
            ctx.machinery(e);
            return;
        }
    };
    match implr::shuttle_rlib() {
        Ok(p) => env.externs.push(("shuttle".into(), p)),
        Err(e) => {
            ctx.machinery(e);
            return;
        }
    }
    crate::fw::CASE_BUDGET_MS.store(6_000_000, std::sync::atomic::Ordering::SeqCst);
    let mut units = vec![];
    let mut names = vec![];
    for (intern, g) in [(false, G_EXTERN), (true, G_INTERN)] {
        for ascent in [false, true] {
            let text = g.replace("GRAMMAR_ATTR", if ascent { "#[recursive_ascent]" } else { "" });
            let out = drv::generate_in(&dir, text.as_bytes(), &GenOpts::default());
            if !out.ok {
                ctx.machinery(format!("C27 grammar rejected: {} {:?}", out.diag.lines().next().unwrap_or(""), out.panic));
                return;
            }
            units.push(implr::Unit { rs: out.rs.unwrap(), glue: glue(intern) });
            names.push(format!("{}-{}", if intern { "builtin-lexer" } else { "extern-tokens" }, if ascent { "ascent" } else { "table" }));
        }
    }
    let bdir = dir.join("build");
    let built = match implr::build(&env, &bdir, &units, EXTRA) {
        Ok(b) => b,
        Err(e) => {
            ctx.machinery(format!("build: {}", e));
            return;
        }
    };
    for (i, e) in built.unit_errors.iter().enumerate() {
        if let Some(e) = e {
            // includes the Send + Sync assertion
            ctx.violation("parser-not-send-sync-or-uncompilable", format!("{}: {}", names[i], e), json!({"unit": names[i], "rustc": e}));
        }
    }
    // inputs
    let ext_inputs: Vec<&str> = vec!["", "0", "00", "012", "01", "2", "0102", "1012", "E0", "0E"];
    let int_inputs: Vec<&str> = vec!["", "ab", "ab 12", "(x y)", "(x", ")", "a $", "((a)) 7", "Z", "13", "(a 13"];
    // schedule cap per job: the DFS is exhaustive below it; a job that reaches it is reported as capped
    let cap: usize = if thorough { 20_000_000 } else { 3_000_000 };
    let mut jobs = vec![];
    let mut meta = vec![];
    for (u, name) in names.iter().enumerate() {
        let intern = name.starts_with("builtin");
        let ins: Vec<&str> = if intern { int_inputs.clone() } else { ext_inputs.clone() };
        // (a)
        jobs.push(implr::Job { unit: u, entry: 0, input: ins.join("|") });
        meta.push((u, "sequential".to_string()));
        // (b) two threads: every ordered pair of short inputs
        let mut short: Vec<&str> = if intern { vec!["ab", "ab 12", "(x y)", ")", "(x", ""] } else { vec!["0", "012", "01", "2", "00", "E0", ""] };
        if thorough {
            // two threads stay cheap (C(a+b, a) schedules for a and b yield points): longer inputs
            short.extend(if intern { vec!["((a)) 7", "a (b) c 1"] } else { vec!["0102", "01012", "1012"] });
        }
        for a in &short {
            for b in &short {
                jobs.push(implr::Job { unit: u, entry: cap, input: format!("{}|{}", a, b) });
                meta.push((u, format!("2 threads {:?} | {:?}", a, b)));
            }
        }
        // three threads, tiny inputs (quick: the empty input and one accepted / one rejected token)
        // (three threads x two-token inputs exceed 10^8 schedules without partial-order reduction)
        let tiny: Vec<&str> = if intern { vec!["", ")", "a"] } else { vec!["", "2", "0"] };
        let lim = if thorough { tiny.len() } else { 2 };
        for a in &tiny[..lim] {
            for b in &tiny[..lim] {
                for c in &tiny[..lim] {
                    jobs.push(implr::Job { unit: u, entry: cap, input: format!("{}|{}|{}", a, b, c) });
                    meta.push((u, format!("3 threads {:?} | {:?} | {:?}", a, b, c)));
                }
            }
        }
    }
    // jobs are independent processes' worth of work: run them on P runner processes, longest inputs first
    ctx.begin_case(1);
    let par = crate::fw::ncpus().max(2) - 1;
    let mut order: Vec<usize> = (0..jobs.len()).collect();
    order.sort_by_key(|&i| std::cmp::Reverse((jobs[i].input.split('|').count(), jobs[i].input.len())));
    let mut parts: Vec<Vec<usize>> = vec![vec![]; par];
    for (k, i) in order.iter().enumerate() {
        parts[k % par].push(*i);
    }
    let mut res: Vec<serde_json::Value> = vec![serde_json::Value::Null; jobs.len()];
    std::thread::scope(|sc| {
        let hs: Vec<_> = parts
            .iter()
            .map(|part| {
                let sub: Vec<implr::Job> = part.iter().map(|&i| jobs[i].clone()).collect();
                let built = &built;
                sc.spawn(move || implr::run(built, &sub, 3_000_000))
            })
            .collect();
        for (part, h) in parts.iter().zip(hs) {
            let r = h.join().unwrap();
            for (&i, v) in part.iter().zip(r) {
                res[i] = v;
            }
        }
    });
    ctx.end_case();
    let _ = std::fs::remove_dir_all(&bdir);
    for ((u, what), v) in meta.iter().zip(res.iter()) {
        let case = json!({"parser": names[*u], "what": what, "result": v});
        let Some(s) = v.get("ok").and_then(|x| x.as_str()) else {
            if v.get("timeout").is_some() && what != "sequential" {
                // the DFS did not finish within the wall-clock budget: no verdict (a deadlock is
                // reported by shuttle itself as a panic, a schedule cap as capped=1)
                ctx.machinery(format!("{} {}: exploration exceeded the wall-clock budget", names[*u], what));
                continue;
            }
            let class = if v.get("timeout").is_some() { "parse-hang" } else { "parse-crash" };
            ctx.violation(class, format!("{} {}: {}", names[*u], what, v), case);
            continue;
        };
        let field = |k: &str| -> u64 { s.split_whitespace().find_map(|w| w.strip_prefix(&format!("{}=", k))).and_then(|x| x.parse().ok()).unwrap_or(0) };
        if what == "sequential" {
            ctx.add("sequential_pairs", field("sequences"));
            ctx.add("parses", field("sequences"));
        } else {
            let nthreads = if what.starts_with("3") { 3 } else { 2 };
            ctx.add("schedules", field("schedules"));
            ctx.count("dfs_jobs");
            if field("capped") != 0 {
                ctx.count("dfs_jobs_capped");
                ctx.count("caps_hit");
                let mut l = ctx.p.notes.get("capped_jobs").and_then(|v| v.as_array().cloned()).unwrap_or_default();
                l.push(json!(format!("{} {}", names[*u], what)));
                ctx.note("capped_jobs", json!(l));
            }
            ctx.add("parses", field("schedules") * nthreads);
            ctx.add("distinct_interleavings", field("interleavings"));
            if nthreads == 3 {
                ctx.add("three_thread_schedules", field("schedules"));
            }
            ctx.max("max_schedules_per_job", field("schedules"));
        }
        if field("mismatches") != 0 {
            let class = if what == "sequential" { "parser-not-reusable" } else { "parser-not-thread-safe" };
            ctx.violation(class, format!("{} {}: {}", names[*u], what, s), case);
        }
        if ctx.p.samples.len() < 3 && what.starts_with('2') {
            ctx.sample(json!({"parser": names[*u], "what": what, "result": s}));
        }
    }
}
