//! C03: a grammar is accepted exactly when it is deterministic for the chosen algorithm.

use crate::drv::{self, DiagClass, GenOpts};
use crate::fw::{CheckDef, Ctx};
use crate::gram::{self, Algo, Cfg, Codegen};
use crate::lang::{self, Lang};
use crate::lrref;
use serde_json::json;

pub fn def() -> CheckDef {
    CheckDef {
        id: "C03",
        level: "exploration",
        rule: "every grammar of F-cfg(S) (<=3 nonterminals, <=3 terminals, size sum(1+|rhs|) <= S, modulo renaming; plus the variant with two pub symbols) and of F-ctx (context/reducer family around LR(1)-not-LALR(1) shapes) x {lane table, canonical LR(1), LALR(1)} is generated in-process and LALRPOP's verdict (conflict diagnostic / parser) compared with a textbook LR(1)/LALR(1) construction written in the harness, plus: two derivation trees for one string <= n implies rejection. distinct_nontrivial = grammars that are not LALR(1) (reference has a conflict under at least one algorithm), all distinct by canonical enumeration",
        evaluations: "generations",
        nontrivial: "grammars_with_some_conflict",
        mc: None,
        require: &["generations", "ref_lr1_ok", "ref_lr1_conflict", "ref_lalr_only_conflict", "ambiguous", "selfcheck_parse_agree"],
        exhaustive: true,
        assumptions: &["the reference LR(1)/LALR(1) construction is the textbook one; it is self-checked in every run against the bounded-language oracle (counts in the evidence)", "grammars above the size bound S are not explored"],
        shards: 0,
        run,
        crash_class: Some("generator"),
    }
}

pub fn families(tier: crate::fw::Tier, f: &mut dyn FnMut(&str, &Cfg)) {
    let s = tier.pick(8, 10);
    gram::enum_fcfg(s, 3, 3, &mut |g| {
        f("fcfg", g);
        if g.nts >= 2 {
            let mut g2 = g.clone();
            g2.pubs = vec![0, 1];
            f("fcfg2", &g2);
        }
    });
    gram::enum_fctx(tier == crate::fw::Tier::Thorough, &mut |g| f("fctx", g));
}

pub fn judge(ctx: &mut Ctx, fam: &str, g: &Cfg, dir: &std::path::Path, nlang: usize) {
    ctx.count("grammars");
    let v = lrref::verdict(g);
    // bounded-language facts, independent of lrref
    let lang = Lang::new(g, nlang);
    let mut ambiguous = None;
    for &s in &g.pubs {
        if let Some(w) = lang::ambiguity_witness(g, s, &lang) {
            ambiguous = Some((s, w));
            break;
        }
    }
    // oracle self-checks
    if ambiguous.is_some() {
        ctx.count("ambiguous");
        if v.lr1.is_none() {
            ctx.machinery(format!("lrref self-check: ambiguous grammar without reference conflict: {}", g.describe()));
        }
    }
    if v.lr1.is_none() {
        for &s in &g.pubs {
            let a = lrref::Aug::new(g, s);
            let m = lrref::build_lr1(&a);
            for inp in lang::all_inputs(g.terms, nlang.min(5)) {
                let want = lang.accepts(s, lang::from_slice(&inp));
                let got = lrref::ref_parse(&a, &m, &inp);
                ctx.count("selfcheck_parse_agree");
                if want != got {
                    ctx.machinery(format!("lrref self-check: reference parser disagrees with lang on {:?} for {}", inp, g.describe()));
                }
            }
        }
    }
    match (&v.lr1, &v.lalr) {
        (None, None) => ctx.count("ref_lr1_ok"),
        (None, Some(_)) => {
            ctx.count("ref_lr1_ok");
            ctx.count("ref_lalr_only_conflict");
            ctx.count("grammars_with_some_conflict");
        }
        (Some(_), _) => {
            ctx.count("ref_lr1_conflict");
            ctx.count("grammars_with_some_conflict");
        }
    }
    if v.lr1_states > v.lr0_states {
        ctx.count("lr1_needs_more_states_than_lr0");
    }
    let mut verdicts = vec![];
    for algo in Algo::ALL {
        let text = gram::render_unit_extern(g, algo, Codegen::Table);
        let out = drv::generate_in(dir, text.as_bytes(), &GenOpts::algo(algo));
        ctx.count("generations");
        let want_conflict = match algo {
            Algo::Lane | Algo::Lr1 => v.lr1.is_some(),
            Algo::Lalr => v.lalr.is_some(),
        };
        let case = json!({"family": fam, "grammar": text, "algo": algo.name(), "cfg": g});
        if let Some(p) = &out.panic {
            ctx.violation("generator-panic", format!("panic `{}` on {} [{}]", p, g.describe(), algo.name()), case);
            verdicts.push(None);
            continue;
        }
        let got_conflict = match out.class() {
            DiagClass::None => false,
            DiagClass::LrConflict => true,
            other => {
                ctx.violation("unexpected-diagnostic", format!("{:?} for plain CFG {} [{}]: {}", other, g.describe(), algo.name(), out.diag.lines().next().unwrap_or("")), case);
                verdicts.push(None);
                continue;
            }
        };
        verdicts.push(Some(got_conflict));
        if got_conflict && !want_conflict {
            ctx.count(&format!("false_conflict_{}", algo.name()));
        } else if !got_conflict && want_conflict {
            ctx.violation(&format!("{}-accepts-nondeterministic", algo.name()), format!("{} accepted though the reference {} automaton has a {:?} conflict", g.describe(), if algo == Algo::Lalr { "LALR(1)" } else { "LR(1)" }, if algo == Algo::Lalr { &v.lalr } else { &v.lr1 }), case.clone());
        }
        if !got_conflict {
            if let Some((s, w)) = &ambiguous {
                ctx.violation(&format!("{}-accepts-ambiguous", algo.name()), format!("{} accepted though {:?} has two derivation trees from N{}", g.describe(), w, s), case.clone());
            }
        }
        if got_conflict {
            ctx.count("lalrpop_conflict");
        } else {
            ctx.count("lalrpop_ok");
        }
    }
    // false conflicts: classify
    for (i, algo) in Algo::ALL.iter().enumerate() {
        let want_conflict = match algo {
            Algo::Lane | Algo::Lr1 => v.lr1.is_some(),
            Algo::Lalr => v.lalr.is_some(),
        };
        if verdicts[i] == Some(true) && !want_conflict {
            let text = gram::render_unit_extern(g, *algo, Codegen::Table);
            let case = json!({"family": fam, "grammar": text, "algo": algo.name(), "cfg": g});
            let vk = lrref::verdict_opt(g, true);
            let want_keep = match algo {
                Algo::Lane | Algo::Lr1 => vk.lr1.is_some(),
                Algo::Lalr => vk.lalr.is_some(),
            };
            let class = if g.productive().iter().any(|p| !*p) && want_keep {
                // the conflict involves closure items whose lookahead set is empty (an
                // unproductive nonterminal follows); textbook LR(1) has no such items
                "unproductive-empty-lookahead-conflict".to_string()
            } else if *algo == Algo::Lane && verdicts[1] == Some(false) {
                // lane table rejects, reference LR(1) and LALRPOP's own canonical construction accept
                "lane-false-conflict".to_string()
            } else {
                format!("{}-false-conflict", algo.name())
            };
            ctx.violation(&class, format!("{} rejected with a conflict though the reference automaton is conflict-free", g.describe()), case);
        }
    }
}

fn run(ctx: &mut Ctx) {
    let dir = drv::scratch_sub(&ctx.scratch.clone(), "gen");
    if let Some(case) = ctx.replay.clone() {
        let g: Cfg = serde_json::from_value(case["cfg"].clone()).expect("cfg in replay");
        judge(ctx, case["family"].as_str().unwrap_or("replay"), &g, &dir, 6);
        // a replay reports every algo; keep only the one recorded
        let algo = case["algo"].as_str().unwrap_or("").to_string();
        ctx.p.violations.retain(|v| v.case["algo"].as_str() == Some(&algo) || algo.is_empty());
        return;
    }
    let nlang = ctx.tier.pick(5, 6);
    let mut idx = 0u64;
    let tier = ctx.tier;
    let mut mine: Vec<(String, Cfg)> = vec![];
    families(tier, &mut |fam, g| {
        if ctx.mine(idx) {
            mine.push((fam.to_string(), g.clone()));
        }
        idx += 1;
    });
    ctx.note("family_sizes_total", json!(idx));
    ctx.note("bounds", json!({"S": tier.pick(8, 10), "n_lang": nlang}));
    for (k, (fam, g)) in mine.iter().enumerate() {
        let case_idx = k as u64 * ctx.nshards as u64 + ctx.shard as u64;
        if !ctx.begin_case(case_idx) {
            continue;
        }
        ctx.count(&format!("family_{}", fam));
        if k % 5000 == 17 {
            ctx.sample(json!({"family": fam, "grammar": g.describe()}));
        }
        judge(ctx, fam, g, &dir, nlang);
        ctx.end_case();
    }
}
