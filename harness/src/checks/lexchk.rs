//! C09 (longest match + precedence), C10 (literal/regex languages), C11 (ambiguity verdicts).
//! The lexer of a generated parser is observed through the REAL runtime matcher
//! (`lalrpop_util::lexer::MatcherBuilder`) built from the regex list lifted from the generated
//! file, with token indices mapped to terminals through the lifted `__token_to_integer`.

use crate::drv::{self, DiagClass, GenOpts};
use crate::fw::{CheckDef, Ctx, Tier};
use crate::lift;
use regex_automata::dfa::{Automaton, StartKind, dense};
use regex_automata::util::syntax::Config as SyntaxConfig;
use regex_automata::{Anchored, MatchKind};
use serde::{Deserialize, Serialize};
use serde_json::json;
use std::collections::{BTreeMap, HashMap, VecDeque};
use std::path::Path;

pub fn defs() -> Vec<CheckDef> {
    vec![
        CheckDef {
            id: "C09",
            level: "exploration",
            rule: "terminal sets of size 1..3 from a pool of overlapping literals/regexes (ASCII and non-ASCII) x match layouts (each terminal unmentioned / in rung 0..2, renamed or not; skip rule none / \\s+ / c+ in rung 0; `_` in rung 0..2 or absent) that LALRPOP accepts x all strings <= n over the characters of the terminals plus {b, space, U+2003 em space}; oracle: per position the longest full match of each source pattern under the regex crate, ties broken by the documented precedence, skipped text yields nothing, InvalidToken where nothing matches; observed = token sequence (terminal, start, end) of the real matcher on the lifted regex list. distinct_nontrivial = (grammar, string) runs in which at least two patterns matched at some position (a tie or a length race was decided)",
            evaluations: "strings_lexed",
            nontrivial: "contested_runs",
            mc: None,
            require: &["strings_lexed", "contested_runs", "grammars_accepted", "with_match_block", "invalid_token_runs", "skipped_text_runs"],
            exhaustive: true,
            assumptions: &["the regex crate's full-match verdict on the source pattern is the reference for `matches`", "bounded pool, layouts and string length"],
            shards: 0,
            run: run_c09,
            crash_class: Some("lexer"),
        },
        CheckDef {
            id: "C10",
            level: "exploration",
            rule: "F-lit(k): every literal of length <= k over a 15-character alphabet of regex metacharacters, escapes and non-ASCII text, rendered with LALRPOP's escape syntax; F-re: regex ASTs of depth <= 2 over atoms {a,b,.,[ab],[^a],\\d,\\w,\\p{Greek},e-acute} and operators {concat,|,*,+,?,{1,2},group,(?i:)}; one terminal per grammar; strings: all <= 3 over the atoms' alphabet plus the literal and its one-character edits; oracle: literal matches exactly itself, regex matches exactly what the regex crate says (Unicode mode); observed through the real matcher on the re-rendered pattern lifted from the generated file. distinct_nontrivial = (terminal, string) pairs where the string is matched", 
            evaluations: "pairs",
            nontrivial: "matched_pairs",
            mc: None,
            require: &["pairs", "matched_pairs", "literals", "regexes", "non_ascii_matched"],
            exhaustive: true,
            assumptions: &["the regex crate in Unicode mode is the reference for the meaning of a regex"],
            shards: 0,
            run: run_c10,
            crash_class: Some("lexer"),
        },
        CheckDef {
            id: "C11",
            level: "model_checking",
            rule: "all pairs and triples from the terminal pool x rung assignments; for every two terminals the product of their anchored DFAs (built with regex-automata configured like MatcherBuilder) is searched exhaustively over all 256 bytes + end of input for a common accepted string; LALRPOP must report `ambiguity detected` iff two equal-precedence terminals have a common string that no higher-precedence terminal also matches; unsupported regex features must be rejected with a diagnostic. states = product states visited, transitions = byte steps, traces_validated = witnesses replayed on the real runtime matcher (both patterns match the witness completely)",
            evaluations: "grammars",
            nontrivial: "grammars_with_overlap",
            mc: Some(("product_states", "product_transitions", "witnesses_validated")),
            require: &["grammars", "grammars_with_overlap", "ambiguity_reported", "product_states", "witnesses_validated", "unsupported_feature_cases"],
            exhaustive: true,
            assumptions: &["regex-automata's DFA for a pattern accepts exactly what the runtime matcher (same crate, same configuration) matches; each witness is additionally replayed on the real MatcherBuilder"],
            shards: 0,
            run: run_c11,
            crash_class: Some("generator"),
        },
    ]
}

// ---------------------------------------------------------------------------------------
// terminal pool

#[derive(Clone, Debug, PartialEq, Eq, Serialize, Deserialize)]
pub struct Term {
    pub lit: bool,
    /// literal: the string itself; regex: the source
    pub src: String,
}

impl Term {
    fn lit(s: &str) -> Term {
        Term { lit: true, src: s.to_string() }
    }
    fn re(s: &str) -> Term {
        Term { lit: false, src: s.to_string() }
    }
    /// LALRPOP syntax
    pub fn render(&self) -> String {
        if self.lit {
            let mut o = String::from("\"");
            for c in self.src.chars() {
                match c {
                    '"' => o.push_str("\\\""),
                    '\\' => o.push_str("\\\\"),
                    '\n' => o.push_str("\\n"),
                    '\t' => o.push_str("\\t"),
                    c => o.push(c),
                }
            }
            o.push('"');
            o
        } else if self.src.contains('"') {
            format!("r#\"{}\"#", self.src)
        } else {
            format!("r\"{}\"", self.src)
        }
    }
    pub fn full_match(&self, s: &str) -> bool {
        if self.lit {
            return self.src == s;
        }
        thread_local! { static CACHE: std::cell::RefCell<HashMap<String, Option<regex::Regex>>> = std::cell::RefCell::new(HashMap::new()); }
        CACHE.with(|c| {
            let mut c = c.borrow_mut();
            let r = c.entry(self.src.clone()).or_insert_with(|| regex::Regex::new(&format!("^(?:{})$", self.src)).ok());
            match r {
                Some(r) => r.is_match(s),
                None => false,
            }
        })
    }
}

pub fn pool() -> Vec<Term> {
    vec![
        Term::lit("a"),
        Term::lit("ab"),
        Term::lit("if"),
        Term::re("[a-z]+"),
        Term::re("a+"),
        Term::re("a|ab"),
        Term::re("[ab]c?"),
        Term::lit("é"),
        Term::re("é"),
        Term::re("[éa]"),
        Term::re("\\p{L}+"),
        Term::re("(?i)a"),
        Term::lit("+"),
        Term::lit("\\"),
        Term::re("a*b"),
        Term::re("i[a-f]"),
        // a literal whose text is also a regex with another meaning (`r"a+"` is in the pool)
        Term::lit("a+"),
        // counted repetitions: `e{n}` and `e{n,}` share exactly the strings of n repetitions
        Term::re("a{2}"),
        Term::re("a{2,}"),
    ]
}

#[derive(Clone, Debug, Serialize, Deserialize)]
pub struct LexGrammar {
    pub terms: Vec<Term>,
    /// per terminal: None = not mentioned in the match block; Some((rung, renamed))
    pub place: Vec<Option<(u8, bool)>>,
    /// skip rule in rung 0: 0 none, 1 r"\s+", 2 r"c+"
    pub skip: u8,
    /// `_` rung, or None
    pub catch_all: Option<u8>,
}

impl LexGrammar {
    pub fn has_match(&self) -> bool {
        self.place.iter().any(|p| p.is_some()) || self.skip != 0 || self.catch_all.is_some()
    }
    pub fn name(&self, i: usize) -> String {
        match self.place[i] {
            Some((_, true)) => format!("T{}", i),
            _ => self.terms[i].render(),
        }
    }
    pub fn render(&self) -> String {
        let mut s = String::from("grammar;\n");
        if self.has_match() {
            let nr = self.place.iter().filter_map(|p| p.map(|x| x.0)).chain(self.catch_all).max().unwrap_or(0) + 1;
            for r in 0..nr {
                s.push_str(if r == 0 { "match {\n" } else { "} else {\n" });
                if r == 0 {
                    match self.skip {
                        1 => s.push_str("    r\"\\s+\" => { },\n"),
                        2 => s.push_str("    r\"c+\" => { },\n"),
                        _ => {}
                    }
                }
                for (i, p) in self.place.iter().enumerate() {
                    if let Some((rr, renamed)) = p {
                        if *rr == r {
                            if *renamed {
                                s.push_str(&format!("    {} => T{},\n", self.terms[i].render(), i));
                            } else {
                                s.push_str(&format!("    {},\n", self.terms[i].render()));
                            }
                        }
                    }
                }
                if self.catch_all == Some(r) {
                    s.push_str("    _\n");
                }
            }
            s.push_str("}\n");
        }
        s.push_str("pub S: () = Item* => ();\nItem: () = {\n");
        for i in 0..self.terms.len() {
            s.push_str(&format!("    {} => (),\n", self.name(i)));
        }
        s.push_str("};\n");
        s
    }
    /// documented precedence of terminal i (None: unmentioned without `_` -> grammar invalid)
    pub fn precedence(&self, i: usize) -> Option<i64> {
        let base = if self.terms[i].lit { 1 } else { 0 };
        if !self.has_match() {
            return Some(base);
        }
        let rung = match self.place[i] {
            Some((r, _)) => r as i64,
            None => self.catch_all? as i64,
        };
        // earlier rung = higher precedence
        Some(-(rung * 2) + base)
    }
    /// skip patterns with their precedence
    pub fn skips(&self) -> Vec<(Term, i64)> {
        match self.skip {
            1 => vec![(Term::re("\\s+"), 0)],
            2 => vec![(Term::re("c+"), 0)],
            // implicit whitespace skip above everything when no skip rule exists
            _ => vec![(Term::re("\\s+"), i64::MAX)],
        }
    }
}

#[derive(Clone, Debug, PartialEq)]
pub enum LexItem {
    Tok(usize, usize, usize), // terminal index, start, end
    Invalid(usize),
}

/// reference tokenization; also reports whether some position had >= 2 matching patterns
fn lexref(g: &LexGrammar, s: &str) -> (Vec<LexItem>, bool, bool, bool) {
    let mut tie = false;
    let mut out = vec![];
    let mut pos = 0;
    let mut contested = false;
    let mut skipped = false;
    let skips = g.skips();
    while pos < s.len() {
        let rest = &s[pos..];
        // candidates: (len, prec, Some(term idx) | None for skip)
        let mut cands: Vec<(usize, i64, Option<usize>)> = vec![];
        let ends: Vec<usize> = rest.char_indices().map(|(i, c)| i + c.len_utf8()).collect();
        for (i, t) in g.terms.iter().enumerate() {
            if let Some(&l) = ends.iter().rev().find(|&&l| t.full_match(&rest[..l])) {
                cands.push((l, g.precedence(i).unwrap_or(i64::MIN), Some(i)));
            }
        }
        for (t, p) in &skips {
            if let Some(&l) = ends.iter().rev().find(|&&l| t.full_match(&rest[..l])) {
                cands.push((l, *p, None));
            }
        }
        if cands.len() >= 2 {
            contested = true;
        }
        let Some(best) = cands.iter().max_by_key(|c| (c.0, c.1)).cloned() else {
            out.push(LexItem::Invalid(pos));
            return (out, contested, skipped, tie);
        };
        // two patterns of equal precedence with the same longest match: the statement does
        // not order them (C11 says such a grammar must have been rejected)
        if cands.iter().filter(|c| (c.0, c.1) == (best.0, best.1)).count() > 1 {
            tie = true;
        }
        match best.2 {
            Some(i) => out.push(LexItem::Tok(i, pos, pos + best.0)),
            None => skipped = true,
        }
        pos += best.0;
    }
    (out, contested, skipped, tie)
}

#[derive(Debug, PartialEq, Eq, Clone)]
enum Name {
    Lit(String),
    Re(String),
    Id(String),
}

fn parse_display(d: &str) -> Name {
    if let Some(rest) = d.strip_prefix('r') {
        if rest.starts_with('"') || rest.starts_with('#') {
            if let Ok(s) = lift::parse_str_literal(d) {
                // the display of a regex terminal is the Debug form of its source
                return Name::Re(lift::unescape(&s).unwrap_or(s));
            }
        }
    }
    if d.starts_with('"') {
        if let Ok(s) = lift::parse_str_literal(d) {
            return Name::Lit(s);
        }
    }
    Name::Id(d.to_string())
}

struct Lexer {
    builder: lalrpop_util::lexer::MatcherBuilder,
    /// Token.0 -> terminal display name
    names: HashMap<usize, Name>,
    list: Vec<(String, bool)>,
}

fn build_lexer(ctx: &mut Ctx, dir: &Path, text: &str) -> Result<Option<Lexer>, drv::GenOut> {
    let out = drv::generate_in(dir, text.as_bytes(), &GenOpts::default());
    if !out.ok {
        return Err(out);
    }
    let lifted = match lift::lift(out.rs.as_ref().unwrap()) {
        Ok(l) => l,
        Err(e) => {
            ctx.machinery(format!("lift: {} :: {}", e, text.replace('\n', " ")));
            return Ok(None);
        }
    };
    let Some(list) = lifted.lexer else {
        ctx.machinery("no lexer list".to_string());
        return Ok(None);
    };
    let t = &lifted.parsers[0];
    let mut names = HashMap::new();
    for (pat, idx) in &t.token_index {
        // Token(3, _)
        if let Some(num) = pat.strip_prefix("Token(").and_then(|x| x.split(',').next()) {
            if let Ok(k) = num.trim().parse::<usize>() {
                if let Some(d) = t.terminals.get(*idx) {
                    names.insert(k, parse_display(d));
                }
            }
        }
    }
    match lalrpop_util::lexer::MatcherBuilder::new(list.iter().map(|(s, b)| (s.as_str(), *b))) {
        Ok(builder) => Ok(Some(Lexer { builder, names, list })),
        Err(e) => {
            ctx.violation("lexer-build-fails", format!("MatcherBuilder::new fails for an accepted grammar: {}", e), json!({"grammar": text}));
            Ok(None)
        }
    }
}

fn expected_name(g: &LexGrammar, i: usize) -> Name {
    match g.place[i] {
        Some((_, true)) => Name::Id(format!("T{}", i)),
        _ => {
            if g.terms[i].lit {
                Name::Lit(g.terms[i].src.clone())
            } else {
                Name::Re(g.terms[i].src.clone())
            }
        }
    }
}

fn strings_over(chars: &[char], n: usize) -> Vec<String> {
    let mut out = vec![String::new()];
    let mut layer = vec![String::new()];
    for _ in 0..n {
        let mut nl = vec![];
        for s in &layer {
            for c in chars {
                let mut x = s.clone();
                x.push(*c);
                nl.push(x);
            }
        }
        out.extend(nl.iter().cloned());
        layer = nl;
    }
    out
}

fn alphabet_for(terms: &[Term]) -> Vec<char> {
    // an ASCII and a non-ASCII white-space character (both are in `\s`)
    let mut cs: Vec<char> = vec!['b', ' ', '\u{2003}'];
    for t in terms {
        let probe: &str = if t.lit {
            &t.src
        } else {
            match t.src.as_str() {
                "[a-z]+" => "az",
                "a+" => "a",
                "a|ab" => "ab",
                "[ab]c?" => "abc",
                "é" => "é",
                "[éa]" => "éa",
                "\\p{L}+" => "éa",
                "(?i)a" => "aA",
                "a*b" => "ab",
                "i[a-f]" => "if",
                _ => "a",
            }
        };
        for c in probe.chars() {
            if !cs.contains(&c) {
                cs.push(c);
            }
        }
    }
    cs.truncate(7);
    cs
}

fn enum_layouts(terms: &[Term], thorough: bool, f: &mut dyn FnMut(LexGrammar)) {
    let k = terms.len();
    // no match block
    f(LexGrammar { terms: terms.to_vec(), place: vec![None; k], skip: 0, catch_all: None });
    // per-terminal options: None, (0,false), (0,true), (1,false), (1,true), (2,false)
    let opts: Vec<Option<(u8, bool)>> = if thorough { vec![None, Some((0, false)), Some((0, true)), Some((1, false)), Some((1, true)), Some((2, false))] } else { vec![None, Some((0, false)), Some((1, true)), Some((2, false))] };
    let total = opts.len().pow(k as u32);
    for code in 0..total {
        let mut c = code;
        let mut place = vec![];
        for _ in 0..k {
            place.push(opts[c % opts.len()]);
            c /= opts.len();
        }
        for skip in 0..3u8 {
            for ca in [None, Some(0u8), Some(1), Some(2)] {
                let g = LexGrammar { terms: terms.to_vec(), place: place.clone(), skip, catch_all: ca };
                if !g.has_match() {
                    continue;
                }
                // rungs must be contiguous from 0 to make a well-formed block
                let maxr = g.place.iter().filter_map(|p| p.map(|x| x.0)).chain(g.catch_all).max().unwrap_or(0);
                let used: Vec<bool> = (0..=maxr).map(|r| g.place.iter().any(|p| p.map(|x| x.0) == Some(r)) || g.catch_all == Some(r) || (r == 0 && g.skip != 0)).collect();
                if used.iter().any(|u| !*u) {
                    continue;
                }
                f(g);
            }
        }
    }
}

fn term_sets(max: usize, f: &mut dyn FnMut(Vec<Term>)) {
    let p = pool();
    for i in 0..p.len() {
        f(vec![p[i].clone()]);
    }
    if max >= 2 {
        for i in 0..p.len() {
            for j in i + 1..p.len() {
                f(vec![p[i].clone(), p[j].clone()]);
            }
        }
    }
    if max >= 3 {
        for i in 0..p.len() {
            for j in i + 1..p.len() {
                for k in j + 1..p.len() {
                    f(vec![p[i].clone(), p[j].clone(), p[k].clone()]);
                }
            }
        }
    }
}

fn run_c09(ctx: &mut Ctx) {
    let dir = drv::scratch_sub(&ctx.scratch.clone(), "lex");
    let thorough = ctx.tier == Tier::Thorough;
    let n = ctx.tier.pick(4, 5);
    let mut todo: Vec<LexGrammar> = vec![];
    if let Some(case) = ctx.replay.clone() {
        todo.push(serde_json::from_value(case["lexgrammar"].clone()).expect("lexgrammar"));
    } else {
        let mut idx = 0u64;
        term_sets(if thorough { 3 } else { 2 }, &mut |ts| {
            if ts.len() == 3 && !thorough {
                return;
            }
            enum_layouts(&ts, thorough && ts.len() <= 2, &mut |g| {
                idx += 1;
                if ctx.mine(idx) {
                    todo.push(g);
                }
            });
        });
        ctx.note("layouts_total", json!(idx));
    }
    for (k, g) in todo.iter().enumerate() {
        let ci = k as u64 * ctx.nshards as u64 + ctx.shard as u64;
        if !ctx.begin_case(ci) {
            continue;
        }
        ctx.count("grammars");
        let text = g.render();
        ctx.case_detail(&json!({"grammar": text, "lexgrammar": g}));
        let lx = match build_lexer(ctx, &dir, &text) {
            Err(out) => {
                if let Some(p) = &out.panic {
                    ctx.count("generator_panics_seen");
                    ctx.note("panic_sample", json!({"grammar": text, "panic": p}));
                }
                ctx.count("grammars_rejected");
                ctx.end_case();
                continue;
            }
            Ok(None) => {
                ctx.end_case();
                continue;
            }
            Ok(Some(l)) => l,
        };
        ctx.count("grammars_accepted");
        if g.has_match() {
            ctx.count("with_match_block");
        }
        let chars = alphabet_for(&g.terms);
        for s in strings_over(&chars, n) {
            if let Some(case) = &ctx.replay {
                if case["input"].as_str().map(|x| x != s).unwrap_or(false) {
                    continue;
                }
            }
            ctx.count("strings_lexed");
            let (want, contested, skipped, tie) = lexref(g, &s);
            if tie {
                ctx.count("unordered_tie_runs_skipped");
                continue;
            }
            if contested {
                ctx.count("contested_runs");
            }
            if skipped {
                ctx.count("skipped_text_runs");
            }
            if matches!(want.last(), Some(LexItem::Invalid(_))) {
                ctx.count("invalid_token_runs");
            }
            // observed
            let mut got: Vec<(Option<Name>, usize, usize)> = vec![];
            let mut n_items = 0;
            for item in lx.builder.matcher::<&str>(&s) {
                n_items += 1;
                if n_items > 3 * s.len() + 10 {
                    got.push((Some(Name::Id("<<endless>>".into())), 0, 0));
                    break;
                }
                match item {
                    Ok((l, tok, r)) => got.push((lx.names.get(&tok.0).cloned(), l, r)),
                    Err(lalrpop_util::ParseError::InvalidToken { location }) => {
                        got.push((None, location, usize::MAX));
                        break;
                    }
                    Err(_) => {
                        got.push((Some(Name::Id("<<other error>>".into())), 0, 0));
                        break;
                    }
                }
            }
            let want_n: Vec<(Option<Name>, usize, usize)> = want
                .iter()
                .map(|w| match w {
                    LexItem::Tok(i, l, r) => (Some(expected_name(g, *i)), *l, *r),
                    LexItem::Invalid(p) => (None, *p, usize::MAX),
                })
                .collect();
            if got != want_n {
                let class = if got.len() == want_n.len() && got.iter().zip(want_n.iter()).all(|(a, b)| a.1 == b.1 && a.2 == b.2) { "wrong-terminal-precedence" } else { "wrong-token-boundaries" };
                ctx.violation(class, format!("{:?} skip={} catch_all={:?} places={:?} input {:?}: expected {:?}, got {:?}", g.terms.iter().map(|t| t.render()).collect::<Vec<_>>(), g.skip, g.catch_all, g.place, s, want_n, got), json!({"grammar": text, "lexgrammar": g, "input": s, "lexer_list": lx.list}));
                break;
            }
            if ctx.p.samples.len() < 2 && contested && want.len() >= 2 {
                ctx.sample(json!({"grammar": text, "input": s, "tokens": format!("{:?}", want_n)}));
            }
        }
        ctx.end_case();
    }
}

// ---------------------------------------------------------------------------------------
// C10

fn lit_alphabet() -> Vec<char> {
    vec!['a', '.', '*', '\\', '"', '[', '(', '|', '$', '^', '\n', '\t', 'é', '😀', '{']
}

fn regex_family(depth2: bool) -> Vec<String> {
    let atoms = ["a", "b", ".", "[ab]", "[^a]", "\\d", "\\w", "\\p{Greek}", "é"];
    let mut d0: Vec<String> = atoms.iter().map(|s| s.to_string()).collect();
    let unary = |x: &str| -> Vec<String> { vec![format!("(?:{})*", x), format!("(?:{})+", x), format!("(?:{})?", x), format!("(?:{}){{1,2}}", x), format!("({})", x), format!("(?i:{})", x)] };
    let mut d1: Vec<String> = vec![];
    for a in &d0 {
        d1.extend(unary(a));
        for b in &d0 {
            d1.push(format!("{}{}", a, b));
            d1.push(format!("{}|{}", a, b));
        }
    }
    let mut out = vec![];
    out.append(&mut d0.clone());
    out.extend(d1.iter().cloned());
    if depth2 {
        for x in &d1 {
            // unary over depth 1, and binary with an atom
            for u in unary(x) {
                out.push(u);
            }
            for a in &atoms[..4] {
                out.push(format!("(?:{}){}", x, a));
                out.push(format!("{}|{}", x, a));
            }
        }
    }
    d0.clear();
    out
}

fn run_c10(ctx: &mut Ctx) {
    let dir = drv::scratch_sub(&ctx.scratch.clone(), "lex");
    let thorough = ctx.tier == Tier::Thorough;
    let mut terms: Vec<Term> = vec![];
    if let Some(case) = ctx.replay.clone() {
        if case.get("term").is_none() {
            // a long-input case: re-run that part
            c10_long_inputs(ctx, &dir);
            return;
        }
        terms.push(serde_json::from_value(case["term"].clone()).expect("term"));
    } else {
        let la = lit_alphabet();
        for s in strings_over(&la, if thorough { 3 } else { 2 }) {
            if !s.is_empty() {
                terms.push(Term::lit(&s));
            }
        }
        for r in regex_family(thorough) {
            terms.push(Term::re(&r));
        }
    }
    let probe_alpha: Vec<char> = vec!['a', 'b', 'A', '1', 'é', 'α', '.', '\n'];
    let probes = strings_over(&probe_alpha, 3);
    for (k, t) in terms.iter().enumerate() {
        if ctx.replay.is_none() && !ctx.mine(k as u64) {
            continue;
        }
        if !ctx.begin_case(k as u64) {
            continue;
        }
        c10_term(ctx, &dir, t, &probes, k % 997 == 5);
        ctx.end_case();
    }
    // The same text as a literal and as a regex, generated one after the other by ONE process
    // (anything the generator remembers between grammars - a cache keyed by the terminal's text -
    // would hand the second one the meaning of the first), in both orders.
    if ctx.replay.is_none() && ctx.shard == 0 && ctx.begin_case(u64::MAX / 4) {
        for (i, text) in [".", "a+", "a*", "a?", "a|b", "[ab]", "(a)", "a{2}", "\\d", "a.", "b+", "b*", "b?", "b|a", "[ba]", "(b)", "b{2}", "\\w", "b.", ".a"].iter().enumerate() {
            let (first, second) = if i < 10 { (Term::lit(text), Term::re(text)) } else { (Term::re(text), Term::lit(text)) };
            c10_term(ctx, &dir, &first, &probes, false);
            c10_term(ctx, &dir, &second, &probes, false);
            ctx.count("same_text_pairs");
        }
        // long inputs: every two-character word over a multi-script alphabet in ONE input, so
        // that the lazy DFA of the runtime builds (and, if its cache is small, rebuilds) many
        // states within a single tokenization
        c10_long_inputs(ctx, &dir);
        ctx.end_case();
    }
}

fn c10_long_inputs(ctx: &mut Ctx, dir: &Path) {
    let alpha: Vec<char> = "aqzAQZ059éßøÅÞλπΩΔжяЖДդՔאבجدकखবগกขაბあんアン漢字한글٣३৫๔ǅᾈ𝔘𝕏ⅷ_".chars().collect();
    let terms = [
        Term::re("\\p{Lu}+"),
        Term::re("\\p{Nd}+"),
        Term::re("\\p{Lu}\\p{Ll}+"),
        Term::re("\\p{L}[\\p{L}\\p{Nd}_]*"),
        Term::re("\\p{Lo}\\p{Lo}"),
        Term::re("\\p{Ll}+"),
        Term::re("\\p{Lo}+"),
        Term::re("\\p{Lt}\\p{Ll}*"),
        Term::re("\\p{Nd}+\\p{L}"),
    ];
    for set in [vec![0usize, 1, 3], vec![0, 1, 2, 3], vec![4, 1, 0], vec![0, 5, 1, 6], vec![0, 5, 1, 6, 2, 7, 8], vec![2, 5, 8, 7]] {
        let ts: Vec<&Term> = set.iter().map(|i| &terms[*i]).collect();
        let text = format!("grammar;\npub S: () = {{ {} }};\n", ts.iter().map(|t| format!("{} => ()", t.render())).collect::<Vec<_>>().join(", "));
        let lx = match build_lexer(ctx, dir, &text) {
            Ok(Some(l)) => l,
            Ok(None) => continue,
            Err(out) => {
                // overlapping classes at equal precedence are refused: not this check's business
                ctx.count("long_input_grammars_rejected");
                let _ = out;
                continue;
            }
        };
        let mut words: Vec<String> = vec![];
        for a in &alpha {
            for b in &alpha {
                words.push(format!("{}{}", a, b));
            }
        }
        // reference, word by word (words are separated by blanks, so the tokenization of the
        // input is the concatenation of the tokenizations of its words); words the terminals
        // cannot tokenize are left out, so that the whole input is consumed
        let tokenize = |w: &str| -> Option<Vec<(usize, usize)>> {
            let mut out = vec![];
            let mut pos = 0usize;
            while pos < w.len() {
                let rest = &w[pos..];
                let mut best = 0usize;
                let mut ends: Vec<usize> = rest.char_indices().map(|(i, _)| i).skip(1).collect();
                ends.push(rest.len());
                for e in ends {
                    if ts.iter().any(|t| t.full_match(&rest[..e])) {
                        best = e;
                    }
                }
                if best == 0 {
                    return None;
                }
                out.push((pos, pos + best));
                pos += best;
            }
            Some(out)
        };
        let mut kept: Vec<&String> = vec![];
        let mut expected: Vec<(usize, usize)> = vec![];
        let stop: Option<usize> = None;
        let mut off = 0usize;
        for w in &words {
            if let Some(toks) = tokenize(w) {
                for (a, b) in toks {
                    expected.push((off + a, off + b));
                }
                off += w.len() + 1;
                kept.push(w);
            }
        }
        let input = kept.iter().map(|s| s.as_str()).collect::<Vec<_>>().join(" ");
        ctx.count("long_inputs");
        ctx.add("long_input_bytes", input.len() as u64);
        ctx.add("long_input_tokens", expected.len() as u64);
        let mut got: Vec<(usize, usize)> = vec![];
        let mut got_stop: Option<usize> = None;
        for item in lx.builder.matcher::<&str>(&input) {
            match item {
                Ok((l, _, r)) => got.push((l, r)),
                Err(e) => {
                    if let lalrpop_util::ParseError::InvalidToken { location } = e {
                        got_stop = Some(location);
                    }
                    break;
                }
            }
            ctx.count("pairs");
        }
        if got != expected || got_stop != stop {
            let first = got.iter().zip(expected.iter()).position(|(a, b)| a != b).unwrap_or(got.len().min(expected.len()));
            ctx.violation("long-input-tokenized-differently", format!("terminals {:?}: a {}-byte input of {} two-character words is tokenized differently from its words taken one by one: first difference at token #{} (expected {:?} / stop {:?}, got {:?} / stop {:?})", ts.iter().map(|t| t.render()).collect::<Vec<_>>(), input.len(), words.len(), first, expected.get(first), stop, got.get(first), got_stop), json!({"grammar": text, "input_words": words.len()}));
        }
    }
}

/// one terminal per grammar: the generated lexer must match exactly the terminal's own language
fn c10_term(ctx: &mut Ctx, dir: &Path, t: &Term, probes: &[String], sample: bool) {
    {
        {
        let text = format!("grammar;\npub S: () = {} => ();\n", t.render());
        ctx.case_detail(&json!({"grammar": text, "term": t}));
        let lx = match build_lexer(ctx, dir, &text) {
            Err(out) => {
                if let Some(p) = &out.panic {
                    ctx.note("panic_sample", json!({"grammar": text, "panic": p}));
                }
                // a well-formed literal/regex of the family must be accepted
                ctx.violation(if t.lit { "literal-rejected" } else { "regex-rejected" }, format!("{} rejected: {}", t.render(), out.diag.lines().next().unwrap_or("")), json!({"grammar": text, "term": t}));
                return;
            }
            Ok(None) => {
                return;
            }
            Ok(Some(l)) => l,
        };
        if t.lit {
            ctx.count("literals");
        } else {
            ctx.count("regexes");
        }
        let mut strs: Vec<String> = probes.to_vec();
        if t.lit {
            let s = &t.src;
            strs.push(s.clone());
            let cs: Vec<char> = s.chars().collect();
            for i in 0..cs.len() {
                let mut d = cs.clone();
                d.remove(i);
                strs.push(d.iter().collect());
                for a in ['a', '\\', '.', 'x'] {
                    let mut e = cs.clone();
                    e[i] = a;
                    strs.push(e.iter().collect());
                    let mut ins = cs.clone();
                    ins.insert(i, a);
                    strs.push(ins.iter().collect());
                }
            }
            strs.push(format!("{}a", s));
            strs.push(format!("\\{}", s));
        }
        for s in &strs {
            if s.is_empty() || s.chars().all(|c| c.is_whitespace()) {
                continue;
            }
            ctx.count("pairs");
            let want = t.full_match(s);
            // observed: the first item covers the whole string
            let mut it = lx.builder.matcher::<&str>(s);
            let got = matches!(it.next(), Some(Ok((0, _, r))) if r == s.len());
            if want {
                ctx.count("matched_pairs");
                if !s.is_ascii() {
                    ctx.count("non_ascii_matched");
                }
            }
            if want != got {
                let class = match (t.lit, want) {
                    (true, true) => "literal-does-not-match-itself",
                    (true, false) => "literal-matches-other-string",
                    (false, true) => "regex-misses-string",
                    (false, false) => "regex-matches-extra-string",
                };
                ctx.violation(class, format!("{} on {:?}: reference says {}, generated lexer says {} (lifted list {:?})", t.render(), s, want, got, lx.list), json!({"grammar": text, "term": t, "input": s}));
                break;
            }
        }
        if sample {
            ctx.sample(json!({"terminal": t.render(), "lifted": lx.list}));
        }
        }
    }
}


// ---------------------------------------------------------------------------------------
// C11

fn build_dense(pat: &str) -> Result<dense::DFA<Vec<u32>>, String> {
    dense::Builder::new()
        .configure(dense::Config::new().match_kind(MatchKind::All).start_kind(StartKind::Anchored))
        .syntax(SyntaxConfig::new().unicode(true).utf8(true))
        .build(pat)
        .map_err(|e| e.to_string())
}

fn term_pattern(t: &Term) -> String {
    if t.lit { regex_syntax::escape(&t.src) } else { t.src.clone() }
}

/// Exhaustive product search: shortest non-empty string accepted by all DFAs of `incl` and by
/// none of `excl`... (excl is handled by the caller through per-witness checks; here: all of
/// `dfas` accept). Returns (witness, states, transitions).
fn product_witness(dfas: &[&dense::DFA<Vec<u32>>], excl: &[&dense::DFA<Vec<u32>>]) -> (Option<Vec<u8>>, u64, u64) {
    use regex_automata::Input;
    let n = dfas.len() + excl.len();
    let all: Vec<&dense::DFA<Vec<u32>>> = dfas.iter().chain(excl.iter()).copied().collect();
    let input = Input::new("").anchored(Anchored::Yes);
    let start: Vec<_> = all.iter().map(|d| d.start_state_forward(&input).unwrap()).collect();
    let mut seen: HashMap<Vec<regex_automata::util::primitives::StateID>, (Option<Vec<regex_automata::util::primitives::StateID>>, u8)> = HashMap::new();
    let mut q = VecDeque::new();
    seen.insert(start.clone(), (None, 0));
    q.push_back(start.clone());
    let mut transitions = 0u64;
    let accepts = |st: &Vec<regex_automata::util::primitives::StateID>| -> bool {
        let inc = (0..dfas.len()).all(|i| all[i].is_match_state(all[i].next_eoi_state(st[i])));
        let exc = (dfas.len()..n).any(|i| all[i].is_match_state(all[i].next_eoi_state(st[i])));
        inc && !exc
    };
    while let Some(st) = q.pop_front() {
        if st != start && accepts(&st) {
            // reconstruct
            let mut bytes = vec![];
            let mut cur = st.clone();
            while let Some((Some(prev), b)) = seen.get(&cur).cloned() {
                bytes.push(b);
                cur = prev;
            }
            bytes.reverse();
            return (Some(bytes), seen.len() as u64, transitions);
        }
        for b in 0..=255u8 {
            transitions += 1;
            let nx: Vec<_> = (0..n).map(|i| all[i].next_state(st[i], b)).collect();
            // all included automata must be alive
            if (0..dfas.len()).any(|i| all[i].is_dead_state(nx[i])) {
                continue;
            }
            if !seen.contains_key(&nx) {
                seen.insert(nx.clone(), (Some(st.clone()), b));
                q.push_back(nx);
            }
        }
    }
    (None, seen.len() as u64, transitions)
}

fn run_c11(ctx: &mut Ctx) {
    let dir = drv::scratch_sub(&ctx.scratch.clone(), "lex");
    let thorough = ctx.tier == Tier::Thorough;
    let mut todo: Vec<LexGrammar> = vec![];
    if let Some(case) = ctx.replay.clone() {
        todo.push(serde_json::from_value(case["lexgrammar"].clone()).expect("lexgrammar"));
    } else {
        let mut idx = 0u64;
        term_sets(3, &mut |ts| {
            if ts.len() == 1 {
                return;
            }
            let k = ts.len();
            // rung assignments: no match block, and every assignment of rungs {0,1} (+2 thorough) with `_` absent
            let mut layouts = vec![LexGrammar { terms: ts.clone(), place: vec![None; k], skip: 0, catch_all: None }];
            let nr: usize = if thorough { 3 } else { 2 };
            if k == 2 || thorough {
                for code in 0..nr.pow(k as u32) {
                    let mut c = code;
                    let mut place = vec![];
                    for _ in 0..k {
                        place.push(Some(((c % nr) as u8, false)));
                        c /= nr;
                    }
                    let maxr = place.iter().map(|p| p.unwrap().0).max().unwrap();
                    if (0..=maxr).all(|r| place.iter().any(|p| p.unwrap().0 == r)) {
                        layouts.push(LexGrammar { terms: ts.clone(), place, skip: 0, catch_all: None });
                    }
                }
            }
            for g in layouts {
                idx += 1;
                if ctx.mine(idx) {
                    todo.push(g);
                }
            }
        });
        // Range family (four to six terminals): the DFA builder partitions the outgoing character
        // ranges of a state into disjoint pieces; sets built from a wide class in a lower rung, a
        // nested class, counted repetitions and several one-letter-plus-tail terminals in the upper
        // rung make classes start, nest and end inside one another in one state.
        for wide in ["[a-z]", "[a-m]"] {
            for nested in ["[a-f]", "[a-e]", "[b-f]", "[f-k]"] {
                for (tail_hi, tail_lo, nested_tail) in [("a", "+", "#?"), ("[0-9]", "[0-9]", ""), ("a", "[a-z]", "")] {
                    let letters = ["f", "k", "t", "a"];
                    for mask in 1u32..16 {
                        if mask.count_ones() < 2 {
                            continue;
                        }
                        let mut terms = vec![Term::re(&format!("{}{}", nested, nested_tail))];
                        for (li, l) in letters.iter().enumerate() {
                            if mask & (1 << li) != 0 {
                                terms.push(if tail_hi == "a" { Term::lit(&format!("{}a", l)) } else { Term::re(&format!("{}{}", l, tail_hi)) });
                            }
                        }
                        let mut place: Vec<Option<(u8, bool)>> = vec![Some((0, false)); terms.len()];
                        terms.push(Term::re(&format!("{}{}", wide, tail_lo)));
                        place.push(Some((1, false)));
                        idx += 1;
                        if ctx.mine(idx) {
                            todo.push(LexGrammar { terms, place, skip: 0, catch_all: None });
                            ctx.count("range_family_sets");
                        }
                    }
                }
            }
        }
        ctx.note("layouts_total", json!(idx));
    }
    let mut dfa_cache: BTreeMap<String, dense::DFA<Vec<u32>>> = BTreeMap::new();
    for (k, g) in todo.iter().enumerate() {
        let ci = k as u64 * ctx.nshards as u64 + ctx.shard as u64;
        if !ctx.begin_case(ci) {
            continue;
        }
        ctx.count("grammars");
        let text = g.render();
        ctx.case_detail(&json!({"grammar": text, "lexgrammar": g}));
        for t in &g.terms {
            let p = term_pattern(t);
            if !dfa_cache.contains_key(&p) {
                match build_dense(&p) {
                    Ok(d) => {
                        dfa_cache.insert(p, d);
                    }
                    Err(e) => ctx.machinery(format!("dense DFA for {}: {}", p, e)),
                }
            }
        }
        // reference verdict
        let mut contended: Option<(usize, usize, Vec<u8>)> = None;
        let mut shadowed: Option<(usize, usize)> = None;
        for i in 0..g.terms.len() {
            for j in i + 1..g.terms.len() {
                if g.precedence(i) != g.precedence(j) {
                    continue;
                }
                let (Some(di), Some(dj)) = (dfa_cache.get(&term_pattern(&g.terms[i])), dfa_cache.get(&term_pattern(&g.terms[j]))) else { continue };
                let higher: Vec<&dense::DFA<Vec<u32>>> = (0..g.terms.len()).filter(|h| g.precedence(*h) > g.precedence(i)).filter_map(|h| dfa_cache.get(&term_pattern(&g.terms[h]))).collect();
                let (w, st, tr) = product_witness(&[di, dj], &higher);
                ctx.add("product_states", st);
                ctx.add("product_transitions", tr);
                match w {
                    Some(w) => {
                        if contended.is_none() {
                            contended = Some((i, j, w));
                        }
                    }
                    None => {
                        if !higher.is_empty() {
                            let (w2, st2, tr2) = product_witness(&[di, dj], &[]);
                            ctx.add("product_states", st2);
                            ctx.add("product_transitions", tr2);
                            if w2.is_some() {
                                shadowed = Some((i, j));
                            }
                        }
                    }
                }
            }
        }
        // validate the witness on the real runtime matcher: each pattern alone matches it fully
        if let Some((i, j, w)) = &contended {
            let ws = String::from_utf8(w.clone());
            match ws {
                Ok(ws) => {
                    for &x in &[*i, *j] {
                        let pat = term_pattern(&g.terms[x]);
                        match lalrpop_util::lexer::MatcherBuilder::new([(pat.as_str(), false)]) {
                            Ok(b) => {
                                let ok = matches!(b.matcher::<&str>(&ws).next(), Some(Ok((0, _, r))) if r == ws.len());
                                if ok {
                                    ctx.count("witnesses_validated");
                                } else {
                                    ctx.machinery(format!("witness {:?} for {} is not matched by the runtime matcher", ws, pat));
                                }
                            }
                            Err(e) => ctx.machinery(format!("runtime matcher cannot build {}: {}", pat, e)),
                        }
                    }
                }
                Err(_) => ctx.machinery(format!("witness {:?} is not UTF-8", w)),
            }
            ctx.count("grammars_with_overlap");
        }
        if shadowed.is_some() && contended.is_none() {
            ctx.count("grammars_with_shadowed_overlap_only");
        }
        let out = drv::generate_in(&dir, text.as_bytes(), &GenOpts::default());
        if let Some(p) = &out.panic {
            ctx.violation("generator-panic", format!("{}: {}", text.replace('\n', " "), p), json!({"grammar": text, "lexgrammar": g}));
            ctx.end_case();
            continue;
        }
        let reported = out.class() == DiagClass::LexAmbiguity;
        if reported {
            ctx.count("ambiguity_reported");
        }
        if !out.ok && !reported {
            ctx.count("rejected_for_other_reasons");
            ctx.note("other_rejection_sample", json!({"grammar": text, "diag": out.diag.lines().take(2).collect::<Vec<_>>()}));
            ctx.end_case();
            continue;
        }
        let names = |a: usize, b: usize| format!("{} / {}", g.terms[a].render(), g.terms[b].render());
        match (&contended, reported) {
            (Some((i, j, w)), false) => {
                let class = if !g.terms[*i].src.is_ascii() || !g.terms[*j].src.is_ascii() || !w.is_ascii() { "overlap-not-reported-non-ascii" } else { "overlap-not-reported" };
                ctx.violation(class, format!("{} (equal precedence) both match {:?} but the grammar is accepted: {}", names(*i, *j), String::from_utf8_lossy(w), text.replace('\n', " ")), json!({"grammar": text, "lexgrammar": g, "witness": w}));
            }
            (None, true) => {
                let class = if shadowed.is_some() { "shadowed-overlap-reported" } else { "ambiguity-reported-without-overlap" };
                ctx.violation(class, format!("`ambiguity detected` but no two equal-precedence terminals overlap: {} :: {}", text.replace('\n', " "), out.diag.lines().next().unwrap_or("")), json!({"grammar": text, "lexgrammar": g}));
            }
            _ => {}
        }
        if k % 499 == 3 {
            ctx.sample(json!({"grammar": text, "reported": reported, "witness": contended.as_ref().map(|c| String::from_utf8_lossy(&c.2).to_string())}));
        }
        ctx.end_case();
    }
    // unsupported regex features must be rejected with a diagnostic
    if ctx.shard == 0 && ctx.replay.is_none() {
        for (k, r) in ["a\\b", "^a", "a$", "a*?", "a+?", "(?P<n>a)", "(?<n>a)", "\\Ba", "(?m)^a", "a??", "\\A a", "a\\z"].iter().enumerate() {
            if !ctx.begin_case(u64::MAX / 4 + k as u64) {
                continue;
            }
            ctx.count("unsupported_feature_cases");
            let text = format!("grammar;\npub S: () = r\"{}\" => ();\n", r);
            let out = drv::generate_in(&dir, text.as_bytes(), &GenOpts::default());
            if let Some(p) = &out.panic {
                ctx.violation("generator-panic", format!("regex {}: {}", r, p), json!({"grammar": text}));
            } else if out.ok {
                // accepted: then the runtime must implement it like the regex crate
                ctx.count("unsupported_feature_accepted");
                ctx.violation("unsupported-regex-feature-accepted", format!("regex r\"{}\" uses look-around / non-greedy / named groups but was accepted", r), json!({"grammar": text}));
            } else if out.diag.trim().is_empty() {
                ctx.violation("error-without-diagnostic", format!("regex {} rejected without a message", r), json!({"grammar": text}));
            }
            ctx.end_case();
        }
    }
}
