//! C18: LALRPOP never panics - every grammar text yields a parser or a diagnostic.
//! Bounded-exhaustive (not random): the one-edit neighbourhood of every seed grammar at token
//! granularity, all short strings over a lexical alphabet, attribute layouts, byte-level cases.

use crate::drv::{self, GenOpts};
use crate::fw::{CheckDef, Ctx, Tier};
use serde_json::json;
use std::path::Path;

pub fn def() -> CheckDef {
    CheckDef {
        id: "C18",
        level: "exploration",
        rule: "(a) every single-token deletion, duplication, adjacent swap and substitution by each token of a 40-token alphabet at every token position of every seed grammar (all .lalrpop files of the repository up to a size cap, plus feature-dense harness grammars: precedence, macros with conditions, match blocks, cfg, error recovery, ascent); (b) all strings of length <= k over a 20-character lexical alphabet appended after `grammar;`; (c) precedence/assoc attribute layouts over a value pool incl. malformed ones on 2-3 alternatives of 6 operator shapes; (d) byte-level cases (empty, non-UTF-8, CRLF, no final newline, NUL, BOM); (f) every subset of six precedence/assoc-annotated alternatives switched off by an inactive `#[cfg]`; (e) eight erroneous templates whose diagnostic spans a whole alternative, laid out over 1-3 lines with 0-8 multi-byte terminals in front of the offending text. Each text is processed in-process under catch_unwind and a watchdog. distinct_nontrivial = texts that LALRPOP rejected with a diagnostic (each text is distinct by construction of the edit)",
        evaluations: "texts",
        nontrivial: "rejected_with_diagnostic",
        mc: None,
        require: &["texts", "rejected_with_diagnostic", "accepted", "mutations", "short_strings", "attr_layouts"],
        exhaustive: true,
        assumptions: &["texts further than one token edit from a seed, or longer than k characters after `grammar;`, are not explored", "a stack overflow or abort kills the worker and is reported as a crash of that case by the parent"],
        shards: 0,
        run,
        crash_class: Some("generator"),
    }
}

/// approximate LALRPOP tokenizer: returns (start, end) byte spans of tokens
pub fn tokenize(text: &str) -> Vec<(usize, usize)> {
    let b = text.as_bytes();
    let mut out = vec![];
    let mut i = 0;
    while i < b.len() {
        let c = b[i];
        if c.is_ascii_whitespace() {
            i += 1;
            continue;
        }
        if c == b'/' && i + 1 < b.len() && b[i + 1] == b'/' {
            while i < b.len() && b[i] != b'\n' {
                i += 1;
            }
            continue;
        }
        if c == b'/' && i + 1 < b.len() && b[i + 1] == b'*' {
            // (nested) block comment: trivia
            let mut depth = 1;
            i += 2;
            while i < b.len() && depth > 0 {
                if b[i] == b'/' && i + 1 < b.len() && b[i + 1] == b'*' {
                    depth += 1;
                    i += 2;
                } else if b[i] == b'*' && i + 1 < b.len() && b[i + 1] == b'/' {
                    depth -= 1;
                    i += 2;
                } else {
                    i += 1;
                }
            }
            continue;
        }
        let start = i;
        if c == b'"' {
            i += 1;
            while i < b.len() && b[i] != b'"' {
                if b[i] == b'\\' {
                    i += 1;
                }
                i += 1;
            }
            i = (i + 1).min(b.len());
        } else if c == b'r' && i + 1 < b.len() && (b[i + 1] == b'"' || b[i + 1] == b'#') {
            let mut j = i + 1;
            let mut hashes = 0;
            while j < b.len() && b[j] == b'#' {
                hashes += 1;
                j += 1;
            }
            if j < b.len() && b[j] == b'"' {
                j += 1;
                loop {
                    if j >= b.len() {
                        break;
                    }
                    if b[j] == b'"' && b[j + 1..].iter().take(hashes).filter(|x| **x == b'#').count() == hashes {
                        j += 1 + hashes;
                        break;
                    }
                    j += 1;
                }
                i = j.min(b.len());
            } else {
                i += 1;
            }
        } else if c.is_ascii_alphanumeric() || c == b'_' {
            while i < b.len() && (b[i].is_ascii_alphanumeric() || b[i] == b'_') {
                i += 1;
            }
            // float literal: digits . digits
            if c.is_ascii_digit() && i + 1 < b.len() && b[i] == b'.' && b[i + 1].is_ascii_digit() {
                i += 1;
                while i < b.len() && (b[i].is_ascii_alphanumeric() || b[i] == b'_') {
                    i += 1;
                }
            }
        } else if c == b'\'' {
            // char literal ('x', '\\n', '\\'') or lifetime ('a)
            let rest = &text[i + 1..];
            let mut it = rest.chars();
            match it.next() {
                Some('\\') => {
                    // escaped char literal: up to the closing quote
                    let mut j = i + 2;
                    if j < b.len() {
                        j += text[j..].chars().next().map(|c| c.len_utf8()).unwrap_or(1);
                    }
                    while j < b.len() && b[j] != b'\'' && b[j] != b'\n' {
                        j += 1;
                    }
                    i = (j + 1).min(b.len());
                }
                Some(ch) if rest[ch.len_utf8()..].starts_with('\'') => {
                    i += 1 + ch.len_utf8() + 1;
                }
                _ => {
                    i += 1;
                    while i < b.len() && (b[i].is_ascii_alphanumeric() || b[i] == b'_') {
                        i += 1;
                    }
                }
            }
        } else {
            let rest = &text[i..];
            let multi = ["=>@L", "=>@R", "=>?", "=>", "==", "!=", "~~", "!~", "::", "@L", "@R", "..", "->"];
            let mut adv = 0;
            for m in multi {
                if rest.starts_with(m) {
                    adv = m.len();
                    break;
                }
            }
            if adv == 0 {
                adv = rest.chars().next().map(|c| c.len_utf8()).unwrap_or(1);
            }
            i += adv;
        }
        while !text.is_char_boundary(i.min(text.len())) {
            i += 1;
        }
        out.push((start, i.min(text.len())));
    }
    out
}

pub const ALPHABET: &[&str] = &[
    ";", "=", "=>", "=>?", "<", ">", "(", ")", "{", "}", "[", "]", ",", "*", "+", "?", "!", "@L", "@R", "\"a\"", "r\"[\"", "r\"a{2,1}\"", "pub", "grammar", "extern", "match", "if", "else", "#[inline]", "#[precedence(level=\"1\")]", "#[assoc(side=\"left\")]",
    "#[cfg(feature=\"x\")]", "X", "_", ":", "::", "'a", "where", "~~", "==", "#", "enum", "type", "use", "mut", "\"", "'", "/*",
];

pub const HARNESS_SEEDS: &[&str] = &[
    // precedence + assoc
    "grammar;\npub E: i32 = {\n    #[precedence(level=\"0\")]\n    \"n\" => 1,\n    \"(\" <E> \")\",\n    #[precedence(level=\"1\")] #[assoc(side=\"left\")]\n    <l:E> \"*\" <r:E> => l * r,\n    #[precedence(level=\"2\")] #[assoc(side=\"right\")]\n    <l:E> \"+\" <r:E> => l + r,\n    #[assoc(side=\"none\")]\n    <l:E> \"-\" <r:E> => l - r,\n};\n",
    // macros with conditions
    "grammar;\nList<T, K>: Vec<T> = {\n    <v:(<T> \",\")*> <e:T?> => v.into_iter().chain(e).collect(),\n    \"!\" <T> if K == \"k\" => vec![<>],\n    \"?\" <T> if K != \"k\" => vec![<>],\n    \"~\" <T> if K ~~ \"k+\" => vec![<>],\n    \"^\" <T> if K !~ \"k+\" => vec![<>],\n};\npub S: Vec<&'input str> = { List<Id, \"k\">, \"x\" <List<Id, \"j\">> };\nId: &'input str = r\"[a-z]+\";\n",
    // match block
    "grammar;\nmatch {\n    \"if\" => IF,\n    r\"[0-9]+\" => NUM,\n    r\"//[^\\n]*\" => { },\n} else {\n    r\"[a-z]+\" => ID,\n    _\n}\npub S: () = { IF ID \"then\" NUM => () };\n",
    // cfg + extern + error recovery
    "use super::Tok;\ngrammar;\nextern {\n    type Location = usize;\n    type Error = String;\n    enum Tok {\n        \"a\" => Tok::T0,\n        #[cfg(feature = \"f\")]\n        \"b\" => Tok::T1,\n        #[cfg(not(feature = \"f\"))]\n        \"b\" => Tok::T2,\n    }\n}\n#[cfg(any(feature = \"f\", all()))]\npub S: () = {\n    \"a\" S => (),\n    #[cfg(feature = \"g\")]\n    \"b\" => (),\n    ! => (),\n    => (),\n};\n",
    // ascent, inline, lookaround, fallible, type params
    "#[recursive_ascent]\ngrammar<'x, T>(t: &'x T) where T: Clone;\npub S: (usize, u8, usize) = { <l:@L> <i:I> <r:@R> => (l, i, r) };\n#[inline]\nI: u8 = { \"a\" =>? Ok(1), \"b\" \"b\" => 2, => 0 };\n",
    // nested macros and repeats
    "grammar;\nComma<T>: Vec<T> = { <mut v:(<T> \",\")*> <e:T?> => { v.extend(e); v } };\nParen<T> = \"(\" <T> \")\";\npub S = Paren<Comma<Paren<A?>>>;\nA: () = \"a\"+ => ();\n",
    // anonymous tuple patterns and `<>`
    "grammar;\npub S: (u8, u8) = { <(a, b): P> \"x\" => (a, b), <P> };\nP: (u8, u8) = { \"a\" \"b\" => (1, 2) };\n",
];

fn judge(ctx: &mut Ctx, dir: &Path, bytes: &[u8], kind: &str, origin: &str) {
    ctx.count("texts");
    ctx.case_detail(&json!({"text": String::from_utf8_lossy(bytes), "kind": kind, "origin": origin}));
    let out = drv::generate_in(dir, bytes, &GenOpts::default());
    if let Some(p) = &out.panic {
        // classify by panic site so that distinct defects stay distinct
        let site = p.rsplit(" @ ").next().unwrap_or("").to_string();
        let msg: String = p.split(" @ ").next().unwrap_or("").chars().take(60).collect();
        let class = format!("panic:{}", site.replace("/repo/", ""));
        ctx.violation(&class, format!("{} of {}: panic `{}`", kind, origin, msg), json!({"text": String::from_utf8_lossy(bytes), "bytes_hex": if std::str::from_utf8(bytes).is_err() { Some(bytes.iter().map(|b| format!("{:02x}", b)).collect::<String>()) } else { None }, "kind": kind, "origin": origin, "panic": p}));
        return;
    }
    if out.ok {
        ctx.count("accepted");
    } else {
        ctx.count("rejected_with_diagnostic");
        if out.rs.is_some() {
            ctx.violation("output-left-after-error", format!("{} of {}: build failed but an output file exists", kind, origin), json!({"text": String::from_utf8_lossy(bytes), "kind": kind, "origin": origin}));
        }
        if out.diag.trim().is_empty() && out.err.as_deref().unwrap_or("").is_empty() {
            ctx.violation("error-without-diagnostic", format!("{} of {}: Err without any message", kind, origin), json!({"text": String::from_utf8_lossy(bytes), "kind": kind, "origin": origin}));
        }
    }
}

fn seeds(max_bytes: usize) -> Vec<(String, String)> {
    let mut v: Vec<(String, String)> = vec![];
    fn walk(d: &Path, out: &mut Vec<std::path::PathBuf>) {
        if let Ok(rd) = std::fs::read_dir(d) {
            let mut es: Vec<_> = rd.filter_map(|e| e.ok()).collect();
            es.sort_by_key(|e| e.file_name());
            for e in es {
                let p = e.path();
                if p.is_dir() {
                    if p.file_name().map(|n| n == "target").unwrap_or(false) {
                        continue;
                    }
                    walk(&p, out);
                } else if p.extension().map(|x| x == "lalrpop").unwrap_or(false) {
                    out.push(p);
                }
            }
        }
    }
    let mut files = vec![];
    walk(Path::new("/repo"), &mut files);
    for f in files {
        if let Ok(t) = std::fs::read_to_string(&f) {
            if t.len() <= max_bytes {
                v.push((f.display().to_string(), t));
            }
        }
    }
    for (i, s) in HARNESS_SEEDS.iter().enumerate() {
        v.push((format!("harness-seed-{}", i), s.to_string()));
    }
    v
}

fn run(ctx: &mut Ctx) {
    let dir = drv::scratch_sub(&ctx.scratch.clone(), "c18");
    if let Some(case) = ctx.replay.clone() {
        let bytes: Vec<u8> = match case.get("bytes_hex").and_then(|h| h.as_str()) {
            Some(h) => (0..h.len() / 2).map(|i| u8::from_str_radix(&h[2 * i..2 * i + 2], 16).unwrap()).collect(),
            None => case["text"].as_str().unwrap_or("").as_bytes().to_vec(),
        };
        judge(ctx, &dir, &bytes, "replay", case["origin"].as_str().unwrap_or(""));
        return;
    }
    let thorough = ctx.tier == Tier::Thorough;
    let mut idx = 0u64;
    // (a) one-edit neighbourhood of the seeds
    let seeds = seeds(if thorough { 4000 } else { 700 });
    ctx.note("seeds", json!(seeds.len()));
    let alpha: Vec<&str> = if thorough { ALPHABET.to_vec() } else { ALPHABET.iter().step_by(3).copied().collect() };
    for (name, text) in &seeds {
        let toks = tokenize(text);
        for ti in 0..toks.len() {
            let (s, e) = toks[ti];
            let mut edits: Vec<(String, String)> = vec![];
            edits.push(("delete".into(), format!("{}{}", &text[..s], &text[e..])));
            edits.push(("duplicate".into(), format!("{}{} {}", &text[..e], "", &text[s..])));
            if ti + 1 < toks.len() {
                let (s2, e2) = toks[ti + 1];
                edits.push(("swap".into(), format!("{}{}{}{}{}", &text[..s], &text[s2..e2], &text[e..s2], &text[s..e], &text[e2..])));
            }
            for a in &alpha {
                edits.push((format!("subst `{}`", a), format!("{}{}{}", &text[..s], a, &text[e..])));
            }
            for (kind, t) in edits {
                idx += 1;
                if !ctx.mine(idx) {
                    continue;
                }
                if !ctx.begin_case(idx) {
                    continue;
                }
                ctx.count("mutations");
                if idx % 50_021 == 1 {
                    ctx.sample(json!({"origin": name, "edit": kind, "token": &text[s..e], "text_head": t.chars().take(200).collect::<String>()}));
                }
                judge(ctx, &dir, t.as_bytes(), &format!("{} at token #{}", kind, ti), name);
                ctx.end_case();
            }
        }
    }
    // (b) short strings after `grammar;`
    let lex: Vec<&str> = vec!["a", "A", "0", "_", " ", "\n", "\"", "'", "r", "#", "/", "*", "<", ">", "=", "\\", "{", "(", ";", "é"];
    let k = if thorough { 4 } else { 3 };
    let mut layer: Vec<String> = vec![String::new()];
    for _ in 0..k {
        let mut nl = vec![];
        for s in &layer {
            for a in &lex {
                nl.push(format!("{}{}", s, a));
            }
        }
        for s in &nl {
            idx += 1;
            if !ctx.mine(idx) || !ctx.begin_case(idx) {
                continue;
            }
            ctx.count("short_strings");
            judge(ctx, &dir, format!("grammar;{}", s).as_bytes(), "short string", s);
            ctx.end_case();
        }
        layer = nl;
    }
    // (c) attribute layouts
    let shapes = ["\"a\"", "\"(\" E \")\"", "\"-\" E", "E \"!\"", "E \"+\" E", "E \"?\" E \":\" E"];
    let precs = ["", "#[precedence(level=\"0\")]", "#[precedence(level=\"1\")]", "#[precedence(level=\"x\")]", "#[precedence(level=\"-1\")]", "#[precedence(level=\"99999999999\")]", "#[precedence(lvl=\"1\")]", "#[precedence]", "#[precedence(level=\"5\")]"];
    let assocs = ["", "#[assoc(side=\"left\")]", "#[assoc(side=\"right\")]", "#[assoc(side=\"none\")]", "#[assoc(side=\"all\")]", "#[assoc(side=\"bogus\")]", "#[assoc(sid=\"left\")]", "#[assoc]"];
    let nalts = if thorough { 3 } else { 2 };
    let mut sel: Vec<Vec<usize>> = vec![];
    for a in 0..shapes.len() {
        for b in 0..shapes.len() {
            if nalts == 2 {
                sel.push(vec![a, b]);
            } else if a <= 1 {
                for c in 0..shapes.len() {
                    sel.push(vec![a, b, c]);
                }
            }
        }
    }
    let per_alt = precs.len() * assocs.len();
    for shape_sel in &sel {
        let total = per_alt.pow(shape_sel.len() as u32);
        for code in 0..total {
            idx += 1;
            if !ctx.mine(idx) {
                continue;
            }
            // thorough with three alternatives: only layouts where the third alternative
            // uses the leading five precedence values (keeps the product within budget)
            let mut c = code;
            let mut text = String::from("grammar;\npub E: () = {\n");
            let mut skip = false;
            for (ai, sh) in shape_sel.iter().enumerate() {
                let p = c % precs.len();
                c /= precs.len();
                let a = c % assocs.len();
                c /= assocs.len();
                if ai == 2 && (p > 4 || a > 4) {
                    skip = true;
                }
                text.push_str(&format!("    {} {} {} => (),\n", precs[p], assocs[a], shapes[*sh]));
            }
            if skip {
                continue;
            }
            text.push_str("};\n");
            if !ctx.begin_case(idx) {
                continue;
            }
            ctx.count("attr_layouts");
            judge(ctx, &dir, text.as_bytes(), "attribute layout", &format!("{:?}/{}", shape_sel, code));
            ctx.end_case();
        }
    }
    // (e) diagnostics over multi-line spans with non-ASCII text: every erroneous template whose
    // diagnostic span is a whole alternative or nonterminal is laid out over several lines, with
    // k multi-byte terminals before the offending text on its first line (byte column > character
    // count) and lines of different lengths after it; the renderer of the diagnostic is part of
    // "yields a diagnostic"
    {
        // {P} = prefix of multi-byte terminals, {NL} = line break with indentation
        let templates: Vec<(&str, &str)> = vec![
            ("mixed-names", "grammar;\npub S: () = {\n    {P} <a:\"a\">{NL}\"b\"{NL}<>{NL}\"c\" => (),\n};\n"),
            ("conflict", "grammar;\npub S: () = {\n    {P} \"a\"{NL}\"b\" => (),\n    {P} \"a\"{NL}\"b\"{NL}=> (),\n};\n"),
            ("undefined", "grammar;\npub S: () = {\n    {P} \"a\"{NL}Missing{NL}\"b\" => (),\n};\n"),
            ("angle-without-names", "grammar;\npub S: u32 = {\n    {P} \"a\"{NL}\"b\" => {NL}{<>},\n};\n"),
            ("bad-macro-arity", "grammar;\nM<X>: () = X => ();\npub S: () = {\n    {P} M<\"a\",{NL}\"b\"> => (),\n};\n"),
            ("type-mismatch", "grammar;\npub S = {\n    {P} \"a\"{NL}\"b\" => 1u8,\n    {P} <x:\"c\">{NL}<y:\"d\"> =>{NL}(x, y),\n};\n"),
            ("dup-nonterminal", "grammar;\npub S: () = {\n    {P} \"a\" => (),\n};\nS: () = {{NL}{P} \"b\"{NL}=> (),\n};\n"),
            ("precedence-first-assoc", "grammar;\npub E: () = {\n    #[precedence(level=\"1\")] #[assoc(side=\"left\")]{NL}{P} E \"+\"{NL}E => (),\n};\n"),
        ];
        let prefixes = ["", "\"∧\"", "\"∧\" \"→\" \"λ\"", "\"∧\" \"→\" \"λ\" \"∀\" \"∃\" \"⊢\" \"漢\" \"😀\""];
        let breaks = [" ", "\n", "\n        ", "\n\n  "];
        let mut k = 0u64;
        for (name, t) in &templates {
            for p in prefixes {
                for nl in breaks {
                    k += 1;
                    let idx = u64::MAX / 3 + k;
                    if !ctx.mine(k) || !ctx.begin_case(idx) {
                        continue;
                    }
                    let text = t.replace("{P}", p).replace("{NL}", nl);
                    ctx.count("multiline_diagnostic_texts");
                    judge(ctx, &dir, text.as_bytes(), "multi-line non-ASCII diagnostic", name);
                    ctx.end_case();
                }
            }
        }
    }
    // (f) `#[cfg]` next to `#[precedence]`/`#[assoc]`: validation runs before conditional compilation
    // removes alternatives, so each subset of alternatives switched off by an inactive feature
    // gives the expander a level layout the validator never saw
    if ctx.shard == 2 % ctx.nshards {
        let alts = [
            ("#[precedence(level=\"1\")]", "\"a\" => ()"),
            ("#[precedence(level=\"1\")] #[assoc(side=\"all\")]", "\"(\" E \")\" => ()"),
            ("#[precedence(level=\"2\")] #[assoc(side=\"left\")]", "E \"+\" E => ()"),
            ("", "E \"-\" E => ()"),
            ("#[precedence(level=\"3\")] #[assoc(side=\"right\")]", "E \"^\" E => ()"),
            ("#[precedence(level=\"3\")] #[assoc(side=\"none\")]", "\"!\" E => ()"),
        ];
        for mask in 0u32..(1 << alts.len()) {
            for order in 0..2 {
                let idx = u64::MAX / 5 + (mask as u64) * 2 + order;
                if !ctx.begin_case(idx) {
                    continue;
                }
                let mut text = String::from("grammar;\npub E: () = {\n");
                for (i, (attrs, body)) in alts.iter().enumerate() {
                    let cfg = if mask & (1 << i) != 0 { "#[cfg(feature=\"off\")] " } else { "" };
                    if order == 0 {
                        text.push_str(&format!("    {}{} {},\n", cfg, attrs, body));
                    } else {
                        text.push_str(&format!("    {} {}{},\n", attrs, cfg, body));
                    }
                }
                text.push_str("};\n");
                ctx.count("cfg_precedence_layouts");
                judge(ctx, &dir, text.as_bytes(), "cfg x precedence layout", &format!("mask {:06b} order {}", mask, order));
                ctx.end_case();
            }
        }
    }
    // (d) byte-level cases
    if ctx.shard == 0 {
        let base = HARNESS_SEEDS[0];
        let cases: Vec<(&str, Vec<u8>)> = vec![
            ("empty file", vec![]),
            ("only newline", b"\n".to_vec()),
            ("non-utf8", vec![0x67, 0x72, 0xff, 0xfe, 0x3b]),
            ("non-utf8 in string", [b"grammar; pub S: () = \"".to_vec(), vec![0xc3, 0x28], b"\" => ();".to_vec()].concat()),
            ("crlf", base.replace('\n', "\r\n").into_bytes()),
            ("no final newline", base.trim_end().as_bytes().to_vec()),
            ("nul byte", [b"grammar;\0".to_vec(), base.as_bytes()[8..].to_vec()].concat()),
            ("bom", [vec![0xef, 0xbb, 0xbf], base.as_bytes().to_vec()].concat()),
            ("only comment", b"// nothing".to_vec()),
            ("unterminated block comment", b"grammar; /* x".to_vec()),
            ("type ref of symbol", b"grammar;\npub S: Vec<#A#> = { <A> => vec![<>] };\nA: u8 = \"a\" => 1;\n".to_vec()),
            ("very long line", format!("grammar; pub S: () = {{ {} => () }};", "\"a\" ".repeat(3000)).into_bytes()),
            ("deep nesting", format!("grammar; pub S = {}\"a\"{};", "(".repeat(200), ")".repeat(200)).into_bytes()),
        ];
        for (k, (name, bytes)) in cases.into_iter().enumerate() {
            let i = u64::MAX / 2 + k as u64;
            if !ctx.begin_case(i) {
                continue;
            }
            ctx.count("byte_cases");
            judge(ctx, &dir, &bytes, "byte-level case", name);
            ctx.end_case();
        }
    }
}
