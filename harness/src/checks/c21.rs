//! C21: non-forced builds never leave a stale or foreign output.
//! Explicit-state BFS to a fixpoint. A state is the byte content of each grammar file and the
//! byte content (or absence) of each output file; every transition runs the REAL
//! `lalrpop::Configuration::process_file/process_dir` (or an edit) on a materialised copy of
//! the state; states are deduplicated by content; the invariant is evaluated after every
//! build transition.

use crate::drv::{self, GenOpts};
use crate::fw::{CheckDef, Ctx, Tier, sha_hex};
use serde_json::{Value, json};
use std::collections::{BTreeMap, VecDeque};
use std::os::unix::fs::MetadataExt;
use std::path::{Path, PathBuf};

pub fn def() -> CheckDef {
    CheckDef {
        id: "C21",
        level: "model_checking",
        rule: "explicit-state BFS over (grammar bytes, output bytes|absent) for one grammar (process_file) and two grammars (process_dir with an out dir) under the alphabet {set grammar to text A / B / a text with an LR conflict / a text with a syntax error / a text with an undefined nonterminal, non-forced build, non-forced build after touching the grammar, forced build, delete output, replace the version line, flip a digit of the hash line, truncate the hash line, delete the hash line, empty the output}; invariant after every build: build Ok for a file => its output equals the reference forced build of the current text, and if it was already equal its inode and mtime are unchanged; build Err for a file => that file has no output; files the build did not reach are untouched. states/transitions are counted by the search; every transition is an execution of the implementation, so traces_validated = build transitions",
        evaluations: "transitions",
        nontrivial: "stale_or_foreign_states_repaired",
        mc: Some(("states", "transitions", "build_transitions")),
        require: &["states", "transitions", "build_transitions", "stale_or_foreign_states_repaired", "uptodate_left_untouched", "failed_builds"],
        exhaustive: true,
        assumptions: &["hand edits to the body of a generated file under an intact header (incl. forging the digest of another text) are outside the contract and not in the alphabet", "state excludes timestamps; `touch` is folded into the build-after-touch transition"],
        shards: 2,
        run,
        crash_class: Some("builder"),
    }
}

const TEXT_A: &str = "grammar;\npub S: () = \"a\" => ();\n";
const TEXT_B: &str = "grammar;\npub S: u8 = { \"b\" \"c\" => 1, \"d\" => 2 };\n";
const TEXT_E: &str = "grammar;\npub S: () = { \"a\" => (), \"a\" => () };\n";
// errors of the earlier stages: the parser of grammar files, and name resolution
const TEXT_P: &str = "grammar;\npub S: () = { \"a\" => () ;;\n";
const TEXT_N: &str = "grammar;\npub S: () = { \"a\" Missing => () };\n";

type State = Vec<(String, Option<Vec<u8>>)>; // per grammar: (text, output)

#[derive(Clone, Debug)]
enum Act {
    SetText(usize, &'static str, &'static str),
    Build { forced: bool, touch: bool },
    DeleteOut(usize),
    VersionLine(usize),
    FlipHash(usize),
    TruncHash(usize),
    DeleteHashLine(usize),
    EmptyOut(usize),
}

struct World {
    dir: PathBuf,
    names: Vec<&'static str>,
    two: bool,
    refs: BTreeMap<String, Option<Vec<u8>>>,
}

impl World {
    fn src(&self, i: usize) -> PathBuf {
        self.dir.join("in").join(format!("{}.lalrpop", self.names[i]))
    }
    fn out(&self, i: usize) -> PathBuf {
        if self.two { self.dir.join("out").join(format!("{}.rs", self.names[i])) } else { self.dir.join("in").join(format!("{}.rs", self.names[i])) }
    }
    fn materialise(&self, st: &State) {
        let _ = std::fs::remove_dir_all(&self.dir);
        std::fs::create_dir_all(self.dir.join("in")).unwrap();
        std::fs::create_dir_all(self.dir.join("out")).unwrap();
        for (i, (t, o)) in st.iter().enumerate() {
            std::fs::write(self.src(i), t).unwrap();
            if let Some(b) = o {
                std::fs::write(self.out(i), b).unwrap();
            }
        }
    }
    fn read(&self, n: usize) -> State {
        (0..n).map(|i| (std::fs::read_to_string(self.src(i)).unwrap(), std::fs::read(self.out(i)).ok())).collect()
    }
    fn build(&self, forced: bool) -> (bool, String) {
        let mut o = GenOpts::default();
        o.force = forced;
        drv::set_algo_env(o.algo);
        let mut c = drv::configure(&o);
        let cap = self.dir.join("cap.txt");
        let (res, diag) = if self.two {
            c.set_out_dir(self.dir.join("out"));
            let d = self.dir.join("in");
            drv::capture(&cap, || std::panic::catch_unwind(std::panic::AssertUnwindSafe(|| c.process_dir(&d).map_err(|e| e.to_string()))))
        } else {
            let f = self.src(0);
            drv::capture(&cap, || std::panic::catch_unwind(std::panic::AssertUnwindSafe(|| c.process_file(&f).map_err(|e| e.to_string()))))
        };
        match res {
            Ok(Ok(())) => (true, diag),
            Ok(Err(e)) => (false, format!("{} {}", e, diag)),
            Err(_) => (false, format!("PANIC {:?}", drv::take_last_panic())),
        }
    }
    /// reference forced build of `text` (None: the build fails)
    fn reference(&mut self, text: &str, name: &str) -> Option<Vec<u8>> {
        let key = format!("{}|{}", name, text);
        if let Some(r) = self.refs.get(&key) {
            return r.clone();
        }
        let d = self.dir.parent().unwrap().join("ref");
        let _ = std::fs::remove_dir_all(&d);
        std::fs::create_dir_all(&d).unwrap();
        let src = d.join(format!("{}.lalrpop", name));
        std::fs::write(&src, text).unwrap();
        let mut o = GenOpts::default();
        o.force = true;
        let c = drv::configure(&o);
        let cap = d.join("cap.txt");
        let (res, _) = drv::capture(&cap, || std::panic::catch_unwind(std::panic::AssertUnwindSafe(|| c.process_file(&src).map_err(|e| e.to_string()))));
        let r = match res {
            Ok(Ok(())) => std::fs::read(d.join(format!("{}.rs", name))).ok(),
            _ => None,
        };
        self.refs.insert(key, r.clone());
        r
    }
}

fn key(st: &State) -> String {
    let mut s = String::new();
    for (t, o) in st {
        s.push_str(&sha_hex(t));
        s.push('/');
        match o {
            Some(b) => s.push_str(&sha_hex(&String::from_utf8_lossy(b))),
            None => s.push('-'),
        }
        s.push(';');
    }
    s
}

fn describe(st: &State) -> Value {
    json!(st.iter().map(|(t, o)| json!({"grammar": t, "output": o.as_ref().map(|b| { let s = String::from_utf8_lossy(b); let head: Vec<&str> = s.lines().take(2).collect(); json!({"len": b.len(), "head": head}) })})).collect::<Vec<_>>())
}

fn explore(ctx: &mut Ctx, two: bool, thorough: bool) {
    let base = drv::scratch_sub(&ctx.scratch.clone(), if two { "w2" } else { "w1" });
    let mut w = World { dir: base.join("state"), names: if two { vec!["a", "b"] } else { vec!["a"] }, two, refs: BTreeMap::new() };
    let n = w.names.len();
    let mut acts: Vec<Act> = vec![];
    for i in 0..n {
        acts.push(Act::SetText(i, TEXT_A, "A"));
        acts.push(Act::SetText(i, TEXT_B, "B"));
        acts.push(Act::SetText(i, TEXT_E, "E"));
        // quick, two grammars: the early-stage error texts on the first grammar only
        if thorough || !two || i == 0 {
            acts.push(Act::SetText(i, TEXT_P, "P"));
            acts.push(Act::SetText(i, TEXT_N, "N"));
        }
        acts.push(Act::DeleteOut(i));
        acts.push(Act::VersionLine(i));
        acts.push(Act::FlipHash(i));
        if thorough || !two {
            acts.push(Act::TruncHash(i));
            acts.push(Act::DeleteHashLine(i));
            acts.push(Act::EmptyOut(i));
        }
    }
    acts.push(Act::Build { forced: false, touch: false });
    acts.push(Act::Build { forced: false, touch: true });
    acts.push(Act::Build { forced: true, touch: false });
    let init: State = (0..n).map(|_| (TEXT_A.to_string(), None)).collect();
    let mut seen: BTreeMap<String, (Option<String>, String)> = BTreeMap::new(); // key -> (parent key, action)
    let mut states: BTreeMap<String, State> = BTreeMap::new();
    let mut q = VecDeque::new();
    seen.insert(key(&init), (None, "init".into()));
    states.insert(key(&init), init.clone());
    q.push_back(init);
    let history = |seen: &BTreeMap<String, (Option<String>, String)>, k: &str| -> Vec<String> {
        let mut h = vec![];
        let mut cur = k.to_string();
        while let Some((p, a)) = seen.get(&cur) {
            h.push(a.clone());
            match p {
                Some(p) => cur = p.clone(),
                None => break,
            }
        }
        h.reverse();
        h
    };
    let mut case_i = if two { 1u64 << 32 } else { 0 };
    while let Some(st) = q.pop_front() {
        ctx.count("states");
        let k0 = key(&st);
        for a in &acts {
            case_i += 1;
            if !ctx.begin_case(case_i) {
                continue;
            }
            w.materialise(&st);
            let label;
            let mut applicable = true;
            match a {
                Act::SetText(i, t, name) => {
                    label = format!("set grammar {} := {}", w.names[*i], name);
                    if st[*i].0 == *t {
                        applicable = false;
                    } else {
                        std::fs::write(w.src(*i), t).unwrap();
                    }
                }
                Act::DeleteOut(i) => {
                    label = format!("delete output {}", w.names[*i]);
                    if st[*i].1.is_none() {
                        applicable = false;
                    } else {
                        std::fs::remove_file(w.out(*i)).unwrap();
                    }
                }
                Act::VersionLine(i) | Act::FlipHash(i) | Act::TruncHash(i) | Act::DeleteHashLine(i) | Act::EmptyOut(i) => {
                    label = format!("{:?}", a);
                    match &st[*i].1 {
                        None => applicable = false,
                        Some(b) => {
                            let text = String::from_utf8_lossy(b).to_string();
                            let mut lines: Vec<String> = text.split('\n').map(|x| x.to_string()).collect();
                            let newb: Option<String> = match a {
                                Act::EmptyOut(_) => {
                                    if b.is_empty() {
                                        None
                                    } else {
                                        Some(String::new())
                                    }
                                }
                                Act::VersionLine(_) => {
                                    if lines.len() >= 2 && lines[0] != "// auto-generated: \"lalrpop 0.0.1\"" {
                                        lines[0] = "// auto-generated: \"lalrpop 0.0.1\"".to_string();
                                        Some(lines.join("\n"))
                                    } else {
                                        None
                                    }
                                }
                                Act::FlipHash(_) => {
                                    if lines.len() >= 2 && lines[1].starts_with("// sha3: ") && lines[1].len() > 20 && !lines[1].ends_with("#") {
                                        let mut cs: Vec<char> = lines[1].chars().collect();
                                        let p = 12;
                                        cs[p] = if cs[p] == '0' { '1' } else { '0' };
                                        lines[1] = cs.into_iter().collect::<String>() + "#";
                                        // the trailing marker keeps the flipped state from flipping back
                                        lines[1].pop();
                                        Some(lines.join("\n"))
                                    } else {
                                        None
                                    }
                                }
                                Act::TruncHash(_) => {
                                    if lines.len() >= 2 && lines[1].starts_with("// sha3: ") && lines[1].len() > 30 {
                                        lines[1].truncate(20);
                                        Some(lines.join("\n"))
                                    } else {
                                        None
                                    }
                                }
                                Act::DeleteHashLine(_) => {
                                    if lines.len() >= 2 && lines[1].starts_with("// sha3: ") {
                                        lines.remove(1);
                                        Some(lines.join("\n"))
                                    } else {
                                        None
                                    }
                                }
                                _ => None,
                            };
                            match newb {
                                Some(nb) => std::fs::write(w.out(*i), nb).unwrap(),
                                None => applicable = false,
                            }
                        }
                    }
                }
                Act::Build { forced, touch } => {
                    label = format!("{}build{}", if *forced { "forced " } else { "" }, if *touch { " after touch" } else { "" });
                    if *touch {
                        for i in 0..n {
                            // rewrite the same bytes a moment later: new mtime, same content
                            std::thread::sleep(std::time::Duration::from_millis(2));
                            let t = std::fs::read(w.src(i)).unwrap();
                            std::fs::write(w.src(i), t).unwrap();
                        }
                    }
                    // what is current before the build
                    let mut before: Vec<Option<(u64, i64, i64)>> = vec![];
                    let mut refs: Vec<Option<Vec<u8>>> = vec![];
                    for i in 0..n {
                        let r = w.reference(&st[i].0, w.names[i]);
                        refs.push(r);
                        before.push(std::fs::metadata(w.out(i)).ok().map(|m| (m.ino(), m.mtime(), m.mtime_nsec())));
                    }
                    std::thread::sleep(std::time::Duration::from_millis(2));
                    let (ok, diag) = w.build(*forced);
                    ctx.count("build_transitions");
                    let after = w.read(n);
                    // which files did the build reach? files in name order up to the first failing one
                    let first_fail = (0..n).find(|i| refs[*i].is_none());
                    let want_ok = first_fail.is_none();
                    let case = |what: &str| json!({"two_grammars": two, "history": history(&seen, &k0), "state": describe(&st), "action": label, "what": what, "build_ok": ok, "diag": diag.chars().take(300).collect::<String>()});
                    if ok != want_ok {
                        ctx.violation("build-status", format!("{} in state {:?}: build returned {} but the reference says {}", label, history(&seen, &k0), ok, want_ok), case("status"));
                    }
                    if !ok {
                        ctx.count("failed_builds");
                    }
                    for i in 0..n {
                        let reached = first_fail.map(|f| i <= f).unwrap_or(true);
                        if !reached {
                            if after[i].1 != st[i].1 {
                                ctx.violation("unreached-file-touched", format!("{}: output of {} changed though the build stopped earlier", label, w.names[i]), case("unreached"));
                            }
                            continue;
                        }
                        match &refs[i] {
                            Some(r) => {
                                let was_current = st[i].1.as_ref() == Some(r);
                                if after[i].1.as_ref() != Some(r) {
                                    let class = if after[i].1.is_none() { "output-missing-after-build" } else if after[i].1 == st[i].1 { "stale-output-kept" } else { "wrong-output-written" };
                                    ctx.violation(class, format!("{} (history {:?}): output of {} is not the forced-build output of the current grammar", label, history(&seen, &k0), w.names[i]), case(class));
                                } else if !was_current {
                                    ctx.count("stale_or_foreign_states_repaired");
                                }
                                if was_current && !*forced {
                                    let now = std::fs::metadata(w.out(i)).ok().map(|m| (m.ino(), m.mtime(), m.mtime_nsec()));
                                    if now != before[i] {
                                        ctx.violation("uptodate-output-rewritten", format!("{}: output of {} was current but was rewritten (inode/mtime changed)", label, w.names[i]), case("rewritten"));
                                    } else {
                                        ctx.count("uptodate_left_untouched");
                                    }
                                }
                            }
                            None => {
                                if after[i].1.is_some() {
                                    ctx.violation("output-left-after-failed-build", format!("{} (history {:?}): the build of {} failed but an output file exists", label, history(&seen, &k0), w.names[i]), case("left"));
                                }
                            }
                        }
                    }
                }
            }
            if applicable {
                ctx.count("transitions");
                let ns = w.read(n);
                let k = key(&ns);
                if !seen.contains_key(&k) {
                    seen.insert(k.clone(), (Some(k0.clone()), label.clone()));
                    states.insert(k, ns.clone());
                    q.push_back(ns);
                }
            }
            ctx.end_case();
        }
    }
    if ctx.p.samples.len() < 3 {
        if let Some((k, _)) = seen.iter().max_by_key(|(k, _)| history(&seen, k).len()) {
            ctx.sample(json!({"two_grammars": two, "longest_history_to_a_new_state": history(&seen, k)}));
        }
    }
}

fn run(ctx: &mut Ctx) {
    let thorough = ctx.tier == Tier::Thorough;
    if ctx.replay.is_some() {
        // a replay re-runs the (small) search of the recorded configuration
        let two = ctx.replay.as_ref().unwrap()["two_grammars"].as_bool().unwrap_or(false);
        ctx.replay = None;
        explore(ctx, two, true);
        return;
    }
    if ctx.shard == 0 {
        explore(ctx, false, thorough);
    } else {
        explore(ctx, true, thorough);
    }
}

#[allow(dead_code)]
fn _unused(_: &Path) {}
