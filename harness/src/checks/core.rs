//! C01, C04, C05, C08, C16: bounded-exhaustive grammar x algorithm x input exploration on the
//! table-replay model (Impl-T), bound to the compiled parsers (Impl-R) by conformance replay.

use crate::drv::{self, GenOpts};
use crate::fw::{CheckDef, Ctx, Tier};
use crate::gram::{self, Algo, Cfg, Codegen, Sym};
use crate::implr;
use crate::implt::{self, Outcome, TNode};
use crate::lang::{self, Lang};
use crate::lift::{self, Lifted, Tables};
use crate::obs::{self, Obs};
use serde_json::{Value, json};
use std::collections::BTreeSet;
use std::path::Path;

#[derive(Clone, Copy, PartialEq, Eq, Debug)]
pub enum Prop {
    C01,
    C04,
    C05,
    C08,
    C16,
}
impl Prop {
    fn id(self) -> &'static str {
        match self {
            Prop::C01 => "C01",
            Prop::C04 => "C04",
            Prop::C05 => "C05",
            Prop::C08 => "C08",
            Prop::C16 => "C16",
        }
    }
}

const MC_RULE: &str = " | states = distinct parser stacks observed at reduce calls (hashed state stack + symbol count), summed over (grammar, algorithm, start) triples; transitions = calls of the real lalrpop_util driver into the table model (action/eof_action/error_action lookups and reductions); traces_validated_against_impl = (grammar, algorithm, input) outcomes of the model replayed on the rustc-compiled table-driven parser and found identical (error variant, token, span, expected list, tokens pulled)";

pub fn defs() -> Vec<CheckDef> {
    let mk = |id: &'static str, rule: &'static str, nontrivial: &'static str, require: &'static [&'static str], run: fn(&mut Ctx)| CheckDef {
        id,
        level: "model_checking",
        rule,
        evaluations: "parses",
        nontrivial,
        mc: Some(("states", "transitions", "traces_validated")),
        require,
        exhaustive: true,
        assumptions: &[
            "Impl-T (tables lifted from the generated text, run by the real lalrpop_util::state_machine::Parser) represents the compiled table-driven parser; checked on every run by the conformance replay on a sub-corpus, and every Impl-T counterexample is re-executed on the compiled parser before it is reported",
            "inputs longer than n and grammars above the size bound are not explored",
            "the bounded-language oracle (L_n, Pre_n by fixpoint) is exact up to length n",
        ],
        shards: 0,
        run,
        crash_class: Some("parser"),
    };
    vec![
        mk("C01", "F-cfg(S) (one and two pub symbols) and F-ctx x {lane, LR(1), LALR(1)} x all token sequences over the grammar's terminals up to length n on the table model, plus a compiled sub-corpus x {table, ascent}; oracle: Ok <=> input in L_n(start). distinct_nontrivial = accepted (grammar, algorithm, start) triples that have both accepted and rejected inputs within the bound", "triples_with_both_outcomes", &["parses", "accepted_inputs", "rejected_inputs", "implr_parses", "implr_ascent_parses"], run_c01),
        mk("C04", "reduced grammars of F-cfg(S)/F-ctx without `!` x 3 algorithms x all rejected inputs <= n; oracle: UnrecognizedToken at the first token that makes the prefix non-viable (exact span), else UnrecognizedEof at the end of the last token, at most k tokens pulled, never ExtraToken. distinct_nontrivial = rejected (grammar, algorithm, input) cases judged", "rejected_inputs", &["parses", "rejected_inputs", "err_token", "err_eof", "implr_parses", "implr_ascent_parses"], run_c04),
        mk("C05", "as C04; oracle: every expected terminal t satisfies prefix.t in Pre, no duplicates, only real terminals, equality with the full continuation set under canonical LR(1); F-rec grammars (with `!`) for the structural clauses. distinct_nontrivial = error results with a non-empty expected list", "nonempty_expected", &["parses", "nonempty_expected", "lr1_exact_checked", "implr_parses", "implr_ascent_parses"], run_c05),
        mk("C08", "reduced grammars and F-rec (error recovery) x 3 algorithms x all inputs <= n with a step counter; built-in lexer: terminal sets incl. empty-matching regexes and zero-length skips x all strings <= 5 through the real MatcherBuilder on the lifted regex list; oracle: no panic, driver steps <= bound(n, grammar), lexer never yields two empty tokens at one position. distinct_nontrivial = parses that went through error recovery or the EOF path with reductions", "recovery_or_eof_reduce_parses", &["parses", "lexer_runs", "recovery_parses", "implr_parses"], run_c08),
        mk("C16", "F-rec: reduced F-cfg skeletons with `!` inserted at / substituted for each position of each alternative x 3 algorithms x all inputs <= n; oracle on the derivation tree rebuilt from the reduce sequence: children match the production, leaves are an ordered subsequence of the input, every other token inside exactly one error span, spans ordered and disjoint, dropped tokens ordered and inside their span, no error node when the input is derivable without `!`. distinct_nontrivial = successful parses whose tree contains at least one error node", "trees_with_error_nodes", &["parses", "trees_with_error_nodes", "trees_without_error_nodes", "dropped_tokens_seen"], run_c16),
    ]
    .into_iter()
    .map(|mut d| {
        let r: &'static str = Box::leak(format!("{}{}", d.rule, MC_RULE).into_boxed_str());
        d.rule = r;
        d
    })
    .collect()
}

fn run_c01(c: &mut Ctx) {
    run(c, Prop::C01)
}
fn run_c04(c: &mut Ctx) {
    run(c, Prop::C04)
}
fn run_c05(c: &mut Ctx) {
    run(c, Prop::C05)
}
fn run_c08(c: &mut Ctx) {
    run(c, Prop::C08)
}
fn run_c16(c: &mut Ctx) {
    run(c, Prop::C16)
}

// ---------------------------------------------------------------------------------------
// families

pub fn enum_frec(max_size: usize, f: &mut dyn FnMut(&Cfg)) {
    gram::enum_fcfg(max_size, 2, 2, &mut |g| {
        if g.terms == 0 || !g.is_reduced() {
            return;
        }
        let mut seen: BTreeSet<Vec<Vec<Vec<Sym>>>> = BTreeSet::new();
        for nt in 0..g.nts {
            for ai in 0..g.alts[nt].len() {
                let alt = g.alts[nt][ai].clone();
                for pos in 0..=alt.len() {
                    // insertion
                    let mut a = alt.clone();
                    a.insert(pos, Sym::Err);
                    let mut g2 = g.clone();
                    g2.alts[nt].push(a);
                    if seen.insert(g2.alts.clone()) {
                        f(&g2);
                    }
                    // substitution
                    if pos < alt.len() {
                        let mut a = alt.clone();
                        a[pos] = Sym::Err;
                        let mut g2 = g.clone();
                        g2.alts[nt].push(a);
                        if seen.insert(g2.alts.clone()) {
                            f(&g2);
                        }
                    }
                }
            }
        }
    });
}

/// F-recx: recovery grammars built around the shapes the recovery code treats specially, which
/// the size-bounded F-rec cannot reach: a reduction that is enabled by `!` as lookahead in a
/// state that also has another continuation (the runtime reduces before it looks for a
/// recovery state), `!` after a nullable nonterminal, `!` inside a list item, nested lists.
pub fn enum_frecx(f: &mut dyn FnMut(&Cfg)) {
    use Sym::{Err as E, N, T};
    let ws: [Vec<Sym>; 2] = [vec![T(0)], vec![T(0), T(0)]];
    let tails: [Vec<Sym>; 3] = [vec![], vec![T(2)], vec![T(1)]];
    let mut emit = |alts: Vec<Vec<Vec<Sym>>>, terms: usize| {
        let g = Cfg { nts: alts.len(), terms, alts, pubs: vec![0] };
        if g.is_reduced() {
            f(&g);
        }
    };
    for w in &ws {
        for y in &tails {
            for z in &tails[..2] {
                // N0 = N1 ! y | w b z ; N1 = w
                let mut a0 = vec![N(1), E];
                a0.extend(y.iter().cloned());
                let mut a1 = w.clone();
                a1.push(T(1));
                a1.extend(z.iter().cloned());
                emit(vec![vec![a0.clone(), a1.clone()], vec![w.clone()]], 3);
                // N0 = N1 ! y | N2 z ; N1 = w ; N2 = w b
                let mut wb = w.clone();
                wb.push(T(1));
                let mut a2 = vec![N(2)];
                a2.extend(z.iter().cloned());
                emit(vec![vec![a0.clone(), a2], vec![w.clone()], vec![wb]], 3);
                // N0 = N1 y | N1 ! z ; N1 = w | w b
                let mut b0 = vec![N(1)];
                b0.extend(y.iter().cloned());
                let mut b1 = vec![N(1), E];
                b1.extend(z.iter().cloned());
                let mut wb2 = w.clone();
                wb2.push(T(1));
                emit(vec![vec![b0, b1], vec![w.clone(), wb2]], 3);
            }
        }
    }
    // lists of items with an error item: N0 = N0 N1 | eps ; N1 = a | a b | ! | (c N0 c)
    for nested in [false, true] {
        for sep in [false, true] {
            let mut items = vec![vec![T(0)], vec![T(0), T(1)], vec![E]];
            if nested {
                items.push(vec![T(2), N(0), T(2)]);
            }
            let rec = if sep { vec![N(0), N(1), T(2)] } else { vec![N(0), N(1)] };
            if nested && sep {
                continue;
            }
            emit(vec![vec![rec, vec![]], items], 3);
        }
    }
    // `!` after a nullable nonterminal and before a terminal; nullable list before `!`
    emit(vec![vec![vec![T(0), N(1), E, T(2)], vec![T(0), N(1), T(1), T(2)]], vec![vec![], vec![N(1), T(1)]]], 3);
    emit(vec![vec![vec![N(1), E], vec![N(1), T(2)]], vec![vec![], vec![T(0)], vec![T(0), T(1)]]], 3);
}

struct Bounds {
    s_cfg: usize,
    s_rec: usize,
    n: usize,
    conf_per_shard: usize,
    n_r: usize,
}

fn bounds(prop: Prop, tier: Tier) -> Bounds {
    match (prop, tier) {
        (Prop::C16, Tier::Quick) | (Prop::C08, Tier::Quick) => Bounds { s_cfg: 6, s_rec: 5, n: 5, conf_per_shard: 8, n_r: 4 },
        (Prop::C16, Tier::Thorough) | (Prop::C08, Tier::Thorough) => Bounds { s_cfg: 8, s_rec: 7, n: 7, conf_per_shard: 60, n_r: 5 },
        (_, Tier::Quick) => Bounds { s_cfg: 7, s_rec: 4, n: 6, conf_per_shard: 12, n_r: 4 },
        (_, Tier::Thorough) => Bounds { s_cfg: 9, s_rec: 6, n: 8, conf_per_shard: 100, n_r: 5 },
    }
}

fn families(prop: Prop, b: &Bounds, thorough: bool, f: &mut dyn FnMut(&str, &Cfg)) {
    let want_cfg = matches!(prop, Prop::C01 | Prop::C04 | Prop::C05 | Prop::C08);
    let reduced_only = matches!(prop, Prop::C04 | Prop::C05 | Prop::C08);
    if want_cfg {
        gram::enum_fcfg(b.s_cfg, 3, 3, &mut |g| {
            if !reduced_only || g.is_reduced() {
                f("fcfg", g);
            }
            if g.nts >= 2 {
                let mut g2 = g.clone();
                g2.pubs = vec![0, 1];
                if !reduced_only || g2.is_reduced() {
                    f("fcfg2", &g2);
                }
            }
        });
        gram::enum_fctx(thorough, &mut |g| {
            if !reduced_only || g.is_reduced() {
                f("fctx", g);
            }
        });
        gram::enum_fopt(&mut |g| f("fopt", g));
    }
    if matches!(prop, Prop::C05 | Prop::C08 | Prop::C16) {
        // each recovery grammar also with a second entry point: the tables of every entry point
        // contain the start productions of all of them
        let mut with_second_pub = |fam: &str, fam2: &str, g: &Cfg, f: &mut dyn FnMut(&str, &Cfg)| {
            f(fam, g);
            if g.nts >= 2 {
                let mut g2 = g.clone();
                g2.pubs = vec![0, 1];
                f(fam2, &g2);
            }
        };
        enum_frec(b.s_rec, &mut |g| with_second_pub("frec", "frec2", g, f));
        enum_frecx(&mut |g| with_second_pub("frecx", "frecx2", g, f));
    }
}

// ---------------------------------------------------------------------------------------
// generation + lifting

thread_local! {
    /// grammars whose generated file the lifter could not read consistently: (grammar, algorithm,
    /// lifter message). They are compiled and run at the end of the exploration: if the compiled
    /// parser misbehaves the inconsistency is LALRPOP's (a violation), otherwise the lifter's (a
    /// machinery error).
    static LIFT_FAILED: std::cell::RefCell<Vec<(Cfg, Algo, String)>> = const { std::cell::RefCell::new(Vec::new()) };
}

pub fn gen_lift(ctx: &mut Ctx, dir: &Path, g: &Cfg, algo: Algo) -> Option<Lifted> {
    let text = gram::render_unit_extern(g, algo, Codegen::Table);
    let out = drv::generate_in(dir, text.as_bytes(), &GenOpts::algo(algo));
    ctx.count("generations");
    if !out.ok {
        if out.panic.is_some() {
            ctx.count("generator_panics_seen");
        }
        ctx.count("grammars_rejected_by_lalrpop");
        return None;
    }
    match lift::lift(out.rs.as_ref().unwrap()) {
        Ok(l) => {
            if l.parsers.len() != g.pubs.len() {
                ctx.machinery(format!("lifter found {} parsers for {} pub symbols: {}", l.parsers.len(), g.pubs.len(), g.describe()));
                return None;
            }
            Some(l)
        }
        Err(e) => {
            ctx.count("lifter_failures");
            LIFT_FAILED.with(|l| {
                let mut l = l.borrow_mut();
                // at most 20 grammars with `!` and 20 without are confirmed
                let same_kind = l.iter().filter(|(g2, _, _)| g2.uses_error() == g.uses_error()).count();
                if same_kind < 20 && !l.iter().any(|(g2, a2, _)| g2 == g && *a2 == algo) {
                    l.push((g.clone(), algo, e.clone()));
                } else if same_kind >= 20 {
                    ctx.count("lifter_failures_beyond_confirmation_cap");
                }
            });
            None
        }
    }
}

/// compile the grammars the lifter could not read and judge the compiled parsers directly
fn confirm_lift_failures(ctx: &mut Ctx, prop: Prop, b: &Bounds, dir: &Path) {
    let failed: Vec<(Cfg, Algo, String)> = LIFT_FAILED.with(|l| l.borrow_mut().drain(..).collect());
    if failed.is_empty() {
        return;
    }
    // one batch: the verdict "lifter or LALRPOP" is taken over all of them together
    for chunk in failed.chunks(40) {
        let mut units = vec![];
        let mut jobs = vec![];
        let mut meta = vec![];
        for (ci, (g, algo, _)) in chunk.iter().enumerate() {
            let ui = units.len();
            units.push(RUnit { g: g.clone(), algo: *algo, cg: Codegen::Table, intern: false });
            for (entry, _) in g.pubs.iter().enumerate() {
                for inp in lang::all_inputs(g.terms.max(1), b.n_r) {
                    jobs.push((ui, entry, inp.clone()));
                    meta.push((ci, entry, inp));
                }
            }
        }
        let mut bad = vec![false; chunk.len()];
        let Some(res) = implr_batch(ctx, dir, &units, &jobs) else {
            for (g, _, e) in chunk {
                ctx.machinery(format!("lifter: {} for {} (and the compiled parser could not be built)", e, g.describe()));
            }
            continue;
        };
        for ((ci, entry, inp), o) in meta.iter().zip(res.iter()) {
            let (g, algo, _) = &chunk[*ci];
            let start = g.pubs[*entry];
            let lang = Lang::new(g, b.n_r + 1);
            let j = Judge { g, algo: *algo, codegen: Codegen::Table, engine: "implr", start, lang: &lang, input: inp };
            ctx.count("implr_parses");
            let before = ctx.p.get("violations_raised");
            if o.kind == "Uncompiled" {
                ctx.violation("generated-tables-inconsistent-and-uncompilable", format!("{} [{}]: the generated tables are inconsistent and the module does not compile", g.describe(), algo.name()), j.case(o));
                bad[*ci] = true;
                continue;
            }
            // whatever the property, a compiled parser that panics / hangs is reported
            j.c08(ctx, o);
            let has_err = g.uses_error();
            match prop {
                Prop::C01 if !has_err => j.c01(ctx, o),
                Prop::C04 if !has_err => j.c04(ctx, o),
                Prop::C05 => j.c05(ctx, o, !has_err),
                _ => {}
            }
            if ctx.p.get("violations_raised") > before {
                bad[*ci] = true;
            }
        }
        // an inconsistency that some compiled parser of the run exhibits is LALRPOP's; only if no
        // compiled parser misbehaves is it put down to the lifter
        if bad.iter().any(|b| *b) {
            ctx.add("lifter_failures_explained_by_compiled_parser", bad.iter().filter(|b| **b).count() as u64);
        } else {
            for (g, _, e) in chunk {
                ctx.machinery(format!("lifter: {} for {} (the compiled parser behaves; the lifter cannot read this generated file)", e, g.describe()));
            }
        }
    }
}

fn tables_for<'a>(l: &'a Lifted, start: usize) -> Option<&'a Tables> {
    l.parsers.iter().find(|t| t.start == Cfg::nt_name(start))
}

// ---------------------------------------------------------------------------------------
// oracles on observations (shared by Impl-T and Impl-R observations)

pub struct Judge<'a> {
    pub g: &'a Cfg,
    pub algo: Algo,
    pub codegen: Codegen,
    pub engine: &'static str,
    pub start: usize,
    pub lang: &'a Lang,
    pub input: &'a [u8],
}

impl<'a> Judge<'a> {
    pub fn case(&self, o: &Obs) -> Value {
        json!({"cfg": self.g, "grammar": gram::render_unit_extern(self.g, self.algo, self.codegen), "algo": self.algo.name(), "codegen": self.codegen.name(), "engine": self.engine, "start": self.start, "input": self.input, "observed": o})
    }
    fn first_bad(&self) -> Option<usize> {
        // least k (1-based) such that t1..tk is not a viable prefix
        for k in 1..=self.input.len() {
            if !self.lang.viable(self.start, lang::from_slice(&self.input[..k])) {
                return Some(k);
            }
        }
        None
    }
    pub fn c01(&self, ctx: &mut Ctx, o: &Obs) {
        let member = self.lang.accepts(self.start, lang::from_slice(self.input));
        if member != o.is_ok() {
            let class = if member { "rejects-sentence" } else { "accepts-nonsentence" };
            ctx.violation(&format!("{}-{}", self.codegen.name(), class), format!("{} [{} {} {}] start N{} input {:?}: in language = {}, parser says {}", self.g.describe(), self.algo.name(), self.codegen.name(), self.engine, self.start, self.input, member, o.short()), self.case(o));
        }
    }
    pub fn c04(&self, ctx: &mut Ctx, o: &Obs) {
        let member = self.lang.accepts(self.start, lang::from_slice(self.input));
        if member || o.is_abnormal() {
            return;
        }
        let n = self.input.len();
        let mut bad: Option<String> = None;
        match self.first_bad() {
            Some(k) => {
                ctx.count("err_token");
                let want = (10 * (k - 1) + 3, format!("T{}", self.input[k - 1]), 10 * (k - 1) + 7);
                if o.kind != "UnrecognizedToken" || o.token.as_ref() != Some(&want) {
                    bad = Some(format!("expected UnrecognizedToken{:?}", want));
                } else if o.pulled > k {
                    bad = Some(format!("read {} tokens, the offending one is #{}", o.pulled, k));
                }
            }
            None => {
                ctx.count("err_eof");
                let want = if n == 0 { 0 } else { 10 * (n - 1) + 7 };
                if o.kind != "UnrecognizedEof" || o.location != Some(want) {
                    bad = Some(format!("expected UnrecognizedEof at {}", want));
                } else if o.pulled > n {
                    bad = Some(format!("read {} tokens of {}", o.pulled, n));
                }
            }
        }
        if let Some(b) = bad {
            let class = if o.kind == "ExtraToken" { "extra-token".to_string() } else { format!("{}-wrong-error-position", self.codegen.name()) };
            ctx.violation(&class, format!("{} [{} {} {}] start N{} input {:?}: {}, got {}", self.g.describe(), self.algo.name(), self.codegen.name(), self.engine, self.start, self.input, b, o.short()), self.case(o));
        }
    }
    /// `full`: validity/completeness clauses apply (reduced grammar without `!`)
    pub fn c05(&self, ctx: &mut Ctx, o: &Obs, _noerr: bool) {
        let Some(exp) = &o.expected else { return };
        // consumed prefix
        let p: Option<&[u8]> = match o.kind.as_str() {
            "UnrecognizedToken" => o.token.as_ref().map(|tok| {
                let k = (tok.0 - 3) / 10;
                &self.input[..k.min(self.input.len())]
            }),
            "UnrecognizedEof" => Some(self.input),
            _ => None,
        };
        self.c05_list(ctx, exp, p, o);
    }
    /// judge one expected list that was computed after consuming `p` (None: unknown)
    pub fn c05_list(&self, ctx: &mut Ctx, exp: &[String], p: Option<&[u8]>, o: &Obs) {
        if !exp.is_empty() {
            ctx.count("nonempty_expected");
        }
        let mut seen = BTreeSet::new();
        let mut terms = BTreeSet::new();
        for e in exp {
            if !seen.insert(e.clone()) {
                ctx.violation("expected-duplicate", format!("{} [{} {}] input {:?}: expected list {:?} has duplicates", self.g.describe(), self.algo.name(), self.codegen.name(), self.input, exp), self.case(o));
                return;
            }
            let t = (0..self.g.terms.max(1)).find(|t| e == &format!("\"{}\"", gram::TNAMES[*t]));
            match t {
                Some(t) => {
                    terms.insert(t as u8);
                }
                None => {
                    let class = if e == "error" || e == "!" { "expected-names-error-terminal" } else { "expected-names-unknown-terminal" };
                    ctx.violation(class, format!("{} [{} {}] input {:?}: expected list {:?} names `{}`", self.g.describe(), self.algo.name(), self.codegen.name(), self.input, exp, e), self.case(o));
                    return;
                }
            }
        }
        let Some(p) = p else { return };
        if p.len() + 1 > self.lang.n {
            return;
        }
        // With error recovery the list is judged at the first error only: once the parser has
        // recovered, the consumed text is no longer a prefix of a sentence and the statement
        // gives no reference. (`!` is an ordinary terminal of the bounded-language oracle, so
        // continuations that lead into a `!` alternative count as valid.)
        if !self.lang.viable(self.start, lang::from_slice(p)) {
            return;
        }
        if self.g.uses_error() {
            ctx.count("recovery_lists_judged");
        }
        let valid: BTreeSet<u8> = (0..self.g.terms as u8)
            .filter(|t| {
                let mut q = p.to_vec();
                q.push(*t);
                self.lang.viable(self.start, lang::from_slice(&q))
            })
            .collect();
        let over: Vec<u8> = terms.difference(&valid).copied().collect();
        if !over.is_empty() {
            ctx.violation(&format!("{}-expected-overbroad-{}", self.codegen.name(), self.algo.name()), format!("{} [{} {} {}] start N{} input {:?}: expected {:?} but after prefix {:?} only {:?} can follow", self.g.describe(), self.algo.name(), self.codegen.name(), self.engine, self.start, self.input, exp, p, valid), self.case(o));
        }
        if self.algo == Algo::Lr1 {
            ctx.count("lr1_exact_checked");
            let missing: Vec<u8> = valid.difference(&terms).copied().collect();
            if !missing.is_empty() {
                ctx.violation(&format!("{}-lr1-expected-incomplete", self.codegen.name()), format!("{} [lr1 {} {}] start N{} input {:?}: expected {:?} misses terminals {:?}", self.g.describe(), self.codegen.name(), self.engine, self.start, self.input, exp, missing), self.case(o));
            }
        }
    }
    pub fn c08(&self, ctx: &mut Ctx, o: &Obs) {
        if o.is_abnormal() && o.kind != "Uncompiled" {
            ctx.violation(&format!("{}-{}", self.codegen.name(), o.kind.to_lowercase()), format!("{} [{} {} {}] start N{} input {:?}: {}", self.g.describe(), self.algo.name(), self.codegen.name(), self.engine, self.start, self.input, o.short()), self.case(o));
        }
    }
}

// ---------------------------------------------------------------------------------------
// C16 tree oracle (Impl-T only: the tree is rebuilt from the reduce sequence)

fn c16_tree(ctx: &mut Ctx, j: &Judge, t: &Tables, tree: &TNode, lang_noerr: &Lang, o: &Obs) {
    let nerr = tree.count_errors();
    if nerr > 0 {
        ctx.count("trees_with_error_nodes");
    } else {
        ctx.count("trees_without_error_nodes");
    }
    let mut problems: Vec<(String, String)> = vec![];
    // (1) children match productions
    fn sym_of(t: &Tables, n: &TNode) -> String {
        match n {
            TNode::Tok { kind, .. } => format!("\"{}\"", gram::TNAMES[*kind]),
            TNode::Nt { reduce, .. } => t.prod_text[*reduce].as_ref().map(|p| p.0.clone()).unwrap_or_default(),
            TNode::Error { .. } => "error".to_string(),
        }
    }
    fn walk(t: &Tables, n: &TNode, problems: &mut Vec<(String, String)>, leaves: &mut Vec<(usize, usize, usize)>, errors: &mut Vec<(usize, usize, Vec<(usize, usize, usize)>)>) {
        match n {
            TNode::Tok { kind, l, r } => leaves.push((*l, *kind, *r)),
            TNode::Error { l, r, dropped, .. } => errors.push((*l, *r, dropped.clone())),
            TNode::Nt { reduce, children, l, r } => {
                if let Some((_, syms)) = &t.prod_text[*reduce] {
                    let got: Vec<String> = children.iter().map(|c| sym_of(t, c)).collect();
                    if &got != syms {
                        problems.push(("tree-not-a-derivation".into(), format!("node for reduce {} has children {:?}, production is {:?}", reduce, got, syms)));
                    }
                }
                if let (Some(f), Some(la)) = (children.first(), children.last()) {
                    if f.span().0 != *l || la.span().1 != *r {
                        problems.push(("node-span".into(), format!("node span {}..{} is not first-child start .. last-child end", l, r)));
                    }
                }
                for c in children {
                    walk(t, c, problems, leaves, errors);
                }
            }
        }
    }
    let mut leaves = vec![];
    let mut errors = vec![];
    walk(t, tree, &mut problems, &mut leaves, &mut errors);
    // root must be the start symbol
    if sym_of(t, tree) != Cfg::nt_name(j.start) {
        problems.push(("tree-not-a-derivation".into(), format!("root is {}", sym_of(t, tree))));
    }
    // (2) leaves: ordered subsequence of the input, by position
    let mut last_idx: Option<usize> = None;
    let mut leaf_idx = BTreeSet::new();
    for (l, kind, r) in &leaves {
        if *l < 3 || (*l - 3) % 10 != 0 || *r != *l + 4 {
            problems.push(("leaf-span".into(), format!("leaf span {}..{} is not a token span", l, r)));
            continue;
        }
        let i = (*l - 3) / 10;
        if i >= j.input.len() || j.input[i] as usize != *kind {
            problems.push(("leaf-not-input-token".into(), format!("leaf t{}@{} is not input token #{}", kind, l, i)));
        }
        if let Some(p) = last_idx {
            if i <= p {
                problems.push(("leaves-out-of-order".into(), format!("leaf #{} after leaf #{}", i, p)));
            }
        }
        last_idx = Some(i);
        leaf_idx.insert(i);
    }
    // (4) error spans ordered and disjoint
    for w in errors.windows(2) {
        if w[0].1 > w[1].0 {
            problems.push(("error-spans-overlap".into(), format!("error spans {}..{} and {}..{}", w[0].0, w[0].1, w[1].0, w[1].1)));
        }
    }
    for (l, r, _) in &errors {
        if l > r {
            problems.push(("error-span-inverted".into(), format!("error span {}..{}", l, r)));
        }
    }
    // (3) every other token inside exactly one error span
    for i in 0..j.input.len() {
        if leaf_idx.contains(&i) {
            continue;
        }
        let (tl, tr) = (10 * i + 3, 10 * i + 7);
        let cnt = errors.iter().filter(|(l, r, _)| *l <= tl && tr <= *r).count();
        if cnt != 1 {
            problems.push(("token-unaccounted".into(), format!("input token #{} is neither a leaf nor inside exactly one error span (inside {})", i, cnt)));
        }
    }
    // a leaf must not lie inside an error span
    for &i in &leaf_idx {
        let (tl, tr) = (10 * i + 3, 10 * i + 7);
        if errors.iter().any(|(l, r, _)| *l < tr && tl < *r) {
            problems.push(("leaf-inside-error-span".into(), format!("leaf #{} overlaps an error span", i)));
        }
    }
    // (5) dropped tokens
    for (l, r, dropped) in &errors {
        let mut lastd: Option<usize> = None;
        for (dl, dk, dr) in dropped {
            ctx.count("dropped_tokens_seen");
            let ok_span = *dl >= 3 && (*dl - 3) % 10 == 0 && *dr == *dl + 4;
            let i = if ok_span { (*dl - 3) / 10 } else { usize::MAX };
            if !ok_span || i >= j.input.len() || j.input[i] as usize != *dk {
                problems.push(("dropped-not-input-token".into(), format!("dropped token t{}@{}..{}", dk, dl, dr)));
                continue;
            }
            if *dl < *l || *dr > *r {
                problems.push(("dropped-outside-span".into(), format!("dropped token #{} outside error span {}..{}", i, l, r)));
            }
            if let Some(p) = lastd {
                if i <= p {
                    problems.push(("dropped-out-of-order".into(), format!("dropped #{} after #{}", i, p)));
                }
            }
            if leaf_idx.contains(&i) {
                problems.push(("dropped-also-leaf".into(), format!("dropped token #{} is also a leaf", i)));
            }
            lastd = Some(i);
        }
    }
    // (6) no recovery when derivable without `!`
    if nerr > 0 && lang_noerr.accepts(j.start, lang::from_slice(j.input)) {
        problems.push(("needless-recovery".into(), "input is derivable without `!` but the tree has an error node".to_string()));
    }
    for (class, msg) in problems.into_iter().take(2) {
        ctx.violation(&class, format!("{} [{}] start N{} input {:?}: {}; tree {}", j.g.describe(), j.algo.name(), j.start, j.input, msg, tree.sexp(t)), j.case(o));
    }
}

/// leftmost error node of a derivation: (token it was raised on, expected list it carries)
fn first_error_node(t: &TNode) -> Option<(Option<(usize, usize, usize)>, Vec<String>)> {
    match t {
        TNode::Tok { .. } => None,
        TNode::Error { on_token, expected, .. } => Some((*on_token, expected.clone())),
        TNode::Nt { children, .. } => children.iter().find_map(first_error_node),
    }
}

// ---------------------------------------------------------------------------------------
// Impl-R batches

pub struct RUnit {
    pub g: Cfg,
    pub algo: Algo,
    pub cg: Codegen,
    /// rendered with the built-in lexer (terminals are quoted literals, input is a string)
    pub intern: bool,
}

/// glue for built-in-lexer units: the job input (one digit per token kind) is turned into the
/// literals' text; entries 0.. separate the tokens by one space, entries 100.. by nothing
/// (single-character literals need no separator)
pub fn unit_glue_intern(g: &Cfg) -> String {
    let mut s = String::from("pub fn run(entry: usize, input: &str) -> String {\n    let names = [\"a\", \"b\", \"c\", \"d\", \"e\", \"f\", \"g\", \"h\"];\n    let words: Vec<&str> = input.chars().map(|c| names[(c as u8 - b'0') as usize]).collect();\n    let text = if entry >= 100 { words.join(\"\") } else { words.join(\" \") };\n    match entry % 100 {\n");
    for (e, n) in g.pubs.iter().enumerate() {
        s.push_str(&format!("        {} => render({}Parser::new().parse(&text).map(|_| String::new())),\n", e, Cfg::nt_name(*n)));
    }
    s.push_str("        _ => panic!(\"no such entry\"),\n    }\n}\n");
    s
}

pub fn unit_glue(g: &Cfg) -> String {
    let mut s = String::from("pub fn run(entry: usize, input: &str) -> String {\n    let t = counting(toks(input).into_iter());\n    match entry {\n");
    for (e, n) in g.pubs.iter().enumerate() {
        s.push_str(&format!("        {} => render({}Parser::new().parse(t).map(|_| String::new())),\n", e, Cfg::nt_name(*n)));
    }
    s.push_str("        _ => panic!(\"no such entry\"),\n    }\n}\n");
    s
}

/// Compile `units` and run `jobs` = (unit, entry, input kinds); returns observations per job.
pub fn implr_batch(ctx: &mut Ctx, dir: &Path, units: &[RUnit], jobs: &[(usize, usize, Vec<u8>)]) -> Option<Vec<Obs>> {
    let env = match implr::rustc_env() {
        Ok(e) => e,
        Err(e) => {
            ctx.machinery(format!("implr: {}", e));
            return None;
        }
    };
    let gdir = drv::scratch_sub(dir, "rgen");
    let mut us = vec![];
    for u in units {
        let text = if u.intern { gram::render_unit_intern(&u.g, u.algo, u.cg) } else { gram::render_unit_extern(&u.g, u.algo, u.cg) };
        let out = drv::generate_in(&gdir, text.as_bytes(), &GenOpts::algo(u.algo));
        if !out.ok {
            ctx.machinery(format!("implr: grammar accepted for table was rejected for {}{}: {}", u.cg.name(), if u.intern { " with the built-in lexer" } else { "" }, u.g.describe()));
            return None;
        }
        us.push(implr::Unit { rs: out.rs.unwrap(), glue: if u.intern { unit_glue_intern(&u.g) } else { unit_glue(&u.g) } });
    }
    let bdir = dir.join("rbuild");
    let _ = std::fs::remove_dir_all(&bdir);
    let built = match implr::build(&env, &bdir, &us, "") {
        Ok(b) => b,
        Err(e) => {
            ctx.machinery(format!("implr build: {}", e));
            return None;
        }
    };
    for (i, e) in built.unit_errors.iter().enumerate() {
        if let Some(e) = e {
            // an accepted plain grammar that does not compile is C19's business; here it only
            // removes the unit from the corpus, visibly
            ctx.count("implr_units_rejected_by_rustc");
            ctx.note("implr_rustc_error_sample", json!({"grammar": units[i].g.describe(), "error": e}));
        }
    }
    let js: Vec<implr::Job> = jobs.iter().map(|(u, e, inp)| implr::Job { unit: *u, entry: *e, input: obs::input_string(inp) }).collect();
    let res = implr::run(&built, &js, 60_000);
    let _ = std::fs::remove_dir_all(&bdir);
    Some(res.iter().map(Obs::from_json).collect())
}

// ---------------------------------------------------------------------------------------
// the exploration

struct PendingConfirm {
    g: Cfg,
    algo: Algo,
    entry: usize,
    input: Vec<u8>,
    obs_t: Obs,
    viols: Vec<crate::fw::Viol>,
}

fn run(ctx: &mut Ctx, prop: Prop) {
    let dir = drv::scratch_sub(&ctx.scratch.clone(), "gen");
    let b = bounds(prop, ctx.tier);
    if let Some(case) = ctx.replay.clone() {
        replay(ctx, prop, &case, &dir);
        return;
    }
    let mut idx = 0u64;
    let mut mine: Vec<(String, Cfg)> = vec![];
    let thorough = ctx.tier == Tier::Thorough;
    families(prop, &b, thorough, &mut |fam, g| {
        if ctx.mine(idx) {
            mine.push((fam.to_string(), g.clone()));
        }
        idx += 1;
    });
    ctx.note("bounds", json!({"S_cfg": b.s_cfg, "S_rec": b.s_rec, "n": b.n, "n_implr": b.n_r, "grammars_total": idx}));
    let mut pending: Vec<PendingConfirm> = vec![];
    let mut conf: Vec<(Cfg, Algo)> = vec![];
    // C05: (score, grammar, algorithm, input) whose error made the expected-token simulation
    // (generated `__accepts`, mirrored by the table model) reduce most often / twice in one state
    let mut stress: Vec<(u64, Cfg, Algo, Vec<u8>)> = vec![];
    let conf_stride = (mine.len() / b.conf_per_shard.max(1)).max(1);
    for (k, (fam, g)) in mine.iter().enumerate() {
        let case_idx = k as u64 * ctx.nshards as u64 + ctx.shard as u64;
        if !ctx.begin_case(case_idx) {
            continue;
        }
        ctx.count("grammars");
        ctx.count(&format!("family_{}", fam));
        let has_err = g.uses_error();
        let lang = Lang::new(g, b.n + 1);
        let lang_noerr = if has_err {
            let mut g2 = g.clone();
            for a in g2.alts.iter_mut() {
                a.retain(|r| !r.contains(&Sym::Err));
            }
            Some(Lang::new(&g2, b.n + 1))
        } else {
            None
        };
        let inputs = lang::all_inputs(g.terms.max(1), b.n);
        let mut any_ok_algo = None;
        for algo in Algo::ALL {
            let Some(l) = gen_lift(ctx, &dir, g, algo) else { continue };
            any_ok_algo.get_or_insert(algo);
            ctx.count("accepted_grammar_algos");
            for (entry, &start) in g.pubs.iter().enumerate() {
                let Some(t) = tables_for(&l, start) else {
                    ctx.machinery(format!("no tables for start N{} in {}", start, g.describe()));
                    continue;
                };
                if t.uses_error_recovery != has_err {
                    ctx.machinery(format!("uses_error_recovery={} but grammar has_err={}: {}", t.uses_error_recovery, has_err, g.describe()));
                }
                let tok_idx = implt::extern_tok_idx(t, g.terms.max(1));
                let stats = implt::new_stats(true);
                let (mut nacc, mut nrej) = (0u64, 0u64);
                let mut best_stress: Option<(u64, Vec<u8>)> = None;
                for inp in &inputs {
                    // inputs that extend a non-viable prefix by more than one token have the
                    // same outcome as the shorter one provided the parser stops at the
                    // offending token -- which is checked (`pulled <= k`) on the inputs kept,
                    // that carry one token after the offending one.
                    if !has_err && inp.len() > 2 && !lang.viable(start, lang::from_slice(&inp[..inp.len() - 2])) {
                        ctx.count("inputs_pruned_beyond_error");
                        continue;
                    }
                    let toks = implt::gapped(inp);
                    stats.acc_reduces.set(0);
                    stats.acc_repeat.set(false);
                    let r = implt::run_tokens(t, &tok_idx, &toks, &stats);
                    ctx.count("parses");
                    if prop == Prop::C05 && !has_err && !matches!(r.outcome, Outcome::Ok(_)) {
                        // how hard did this error work the expected-token simulation?
                        let score = stats.acc_reduces.get() + if stats.acc_repeat.get() { 1000 } else { 0 };
                        if score >= 2 && best_stress.as_ref().map(|(s0, _)| score > *s0).unwrap_or(true) {
                            best_stress = Some((score, inp.clone()));
                        }
                    }
                    let o = Obs::from_run(&r, |n| n.sexp(t));
                    if o.is_ok() {
                        nacc += 1;
                    } else {
                        nrej += 1;
                    }
                    let before = ctx.p.violations.len();
                    let before_raised = ctx.p.get("violations_raised");
                    let j = Judge { g, algo, codegen: Codegen::Table, engine: "implt", start, lang: &lang, input: inp };
                    match prop {
                        Prop::C01 => {
                            if !has_err {
                                j.c01(ctx, &o)
                            }
                        }
                        Prop::C04 => j.c04(ctx, &o),
                        Prop::C05 => {
                            j.c05(ctx, &o, !has_err);
                            if let Outcome::Ok(tree) = &r.outcome {
                                // the list handed to the recovery action at the first error
                                if let Some((on_token, exp)) = first_error_node(tree) {
                                    let p: &[u8] = match on_token {
                                        Some((l, _, _)) => &inp[..((l - 3) / 10).min(inp.len())],
                                        None => inp,
                                    };
                                    ctx.count("recovery_action_lists_seen");
                                    j.c05_list(ctx, &exp, Some(p), &o);
                                }
                            }
                        }
                        Prop::C08 => {
                            j.c08(ctx, &o);
                            let bound = 40 * (inp.len() as u64 + 2) * (t.nstates as u64 + 2);
                            ctx.max("max_steps_per_parse", r.steps);
                            if r.steps > bound {
                                ctx.violation("step-bound-exceeded", format!("{} [{}] input {:?}: {} driver steps > bound {}", g.describe(), algo.name(), inp, r.steps, bound), j.case(&o));
                            }
                            if has_err {
                                ctx.count("recovery_parses");
                            }
                            if has_err || (inp.len() < 3 && o.is_ok()) {
                                ctx.count("recovery_or_eof_reduce_parses");
                            }
                        }
                        Prop::C16 => {
                            if let Outcome::Ok(tree) = &r.outcome {
                                c16_tree(ctx, &j, t, tree, lang_noerr.as_ref().unwrap(), &o);
                            } else if lang_noerr.as_ref().unwrap().accepts(start, lang::from_slice(inp)) {
                                ctx.violation("rejects-sentence-of-error-free-grammar", format!("{} [{}] input {:?} is derivable without `!` but the parser returned {}", g.describe(), algo.name(), inp, o.short()), j.case(&o));
                            }
                        }
                    }
                    // Impl-T counterexamples are confirmed on Impl-R before they are reported
                    if ctx.p.violations.len() > before || ctx.p.get("violations_raised") > before_raised {
                        let vs: Vec<crate::fw::Viol> = ctx.p.violations.drain(before..).collect();
                        if pending.len() < 24 && !vs.is_empty() {
                            pending.push(PendingConfirm { g: g.clone(), algo, entry, input: inp.clone(), obs_t: o.clone(), viols: vs });
                        } else {
                            ctx.count("implt_violations_beyond_confirmation_cap");
                        }
                    }
                }
                if let Some((score, inp)) = best_stress {
                    stress.push((score, g.clone(), algo, inp));
                }
                ctx.add("accepted_inputs", nacc);
                ctx.add("rejected_inputs", nrej);
                if nacc > 0 && nrej > 0 {
                    ctx.count("triples_with_both_outcomes");
                }
                ctx.add("states", stats.configs.borrow().len() as u64);
                ctx.add("transitions", stats.steps.get());
                let nerr_free = t.action.iter().filter(|a| **a == 0).count();
                let _ = nerr_free;
                if t.nstates > 0 {
                    ctx.max("max_states", t.nstates as u64);
                }
            }
        }
        if fam == "fopt" {
            // few and aimed at the ascent backend: always compiled, under every algorithm
            for algo in Algo::ALL {
                conf.push((g.clone(), algo));
            }
        } else if k % conf_stride == (ctx.seed as usize % conf_stride) {
            if let Some(_a) = any_ok_algo {
                // rotate the algorithm with the seed so that repeated quick runs cover all three
                let algo = Algo::ALL[(k / conf_stride + ctx.seed as usize) % 3];
                conf.push((g.clone(), algo));
            }
        }
        if k % 4001 == 7 {
            ctx.sample(json!({"family": fam, "grammar": g.describe(), "inputs": inputs.len()}));
        }
        ctx.end_case();
    }
    if prop == Prop::C08 {
        c08_lexer(ctx, &dir);
        if ctx.shard == 1 % ctx.nshards && ctx.begin_case(u64::MAX - 7) {
            c08_table_width(ctx, &dir);
            ctx.end_case();
        }
    }
    // ---- conformance replay + Impl-R oracles on the sub-corpus
    ctx.begin_case(u64::MAX - 1);
    crate::fw::CASE_BUDGET_MS.store(600_000, std::sync::atomic::Ordering::SeqCst);
    conformance(ctx, prop, &b, &dir, &conf, &[]);
    if prop == Prop::C05 {
        // the generated `__accepts` exists only in compiled parsers: replay the errors that
        // stress it most on rustc-compiled table parsers (and ascent ones), hardest first
        stress.sort_by(|a, b| b.0.cmp(&a.0).then_with(|| a.1.cmp(&b.1)));
        let mut picked: Vec<(Cfg, Algo)> = vec![];
        let mut extra: Vec<Vec<Vec<u8>>> = vec![];
        for (_, g, algo, inp) in stress.into_iter() {
            if let Some(i) = picked.iter().position(|(g2, a2)| g2 == &g && *a2 == algo) {
                if extra[i].len() < 4 {
                    extra[i].push(inp);
                }
            } else if picked.len() < b.conf_per_shard {
                picked.push((g, algo));
                extra.push(vec![inp]);
            }
        }
        ctx.add("stress_grammars_compiled", picked.len() as u64);
        conformance(ctx, prop, &b, &dir, &picked, &extra);
    }
    confirm(ctx, prop, &dir, pending);
    confirm_lift_failures(ctx, prop, &b, &dir);
    ctx.end_case();
}

/// `extra[i]` = further inputs (beyond all inputs <= n_r) for `conf[i]`
fn conformance(ctx: &mut Ctx, prop: Prop, b: &Bounds, dir: &Path, conf: &[(Cfg, Algo)], extra: &[Vec<Vec<u8>>]) {
    for (chunk_no, chunk) in conf.chunks(20).enumerate() {
        let mut units = vec![];
        let mut jobs = vec![];
        let mut meta = vec![]; // per job: (chunk idx, cg, entry, input)
        let mut imeta: Vec<(usize, usize, bool, Vec<u8>)> = vec![]; // built-in-lexer jobs: (chunk idx, entry, spaced, input), after the others
        let mut keep = vec![];
        for (gi, (g, algo)) in chunk.iter().enumerate() {
            // the grammar must be accepted under this algo; regenerate to know
            let Some(l) = gen_lift(ctx, &dir.join(""), g, *algo) else { continue };
            let ex: Vec<Vec<u8>> = extra.get(chunk_no * 20 + gi).cloned().unwrap_or_default();
            keep.push((g.clone(), *algo, l, ex));
        }
        for (ci, (g, algo, _, ex)) in keep.iter().enumerate() {
            let has_err = g.uses_error();
            for cg in [Codegen::Table, Codegen::Ascent] {
                if cg == Codegen::Ascent && has_err {
                    continue; // `!` is not supported by the ascent backend
                }
                let ui = units.len();
                units.push(RUnit { g: g.clone(), algo: *algo, cg, intern: false });
                for (entry, _) in g.pubs.iter().enumerate() {
                    for inp in lang::all_inputs(g.terms.max(1), b.n_r).into_iter().chain(ex.iter().filter(|x| x.len() > b.n_r).cloned()) {
                        jobs.push((ui, entry, inp.clone()));
                        meta.push((ci, cg, entry, inp));
                    }
                }
            }
        }
        if units.is_empty() {
            continue;
        }
        // C01/C08: the same grammars with the built-in lexer (terminals are the quoted literals),
        // fed the token texts with and without separating spaces
        if matches!(prop, Prop::C01 | Prop::C08) {
            for (ci, (g, algo, _, _)) in keep.iter().enumerate() {
                if g.uses_error() || g.terms == 0 {
                    continue;
                }
                let ui = units.len();
                units.push(RUnit { g: g.clone(), algo: *algo, cg: Codegen::Table, intern: true });
                for (entry, _) in g.pubs.iter().enumerate() {
                    for inp in lang::all_inputs(g.terms, b.n_r) {
                        for spaced in [true, false] {
                            jobs.push((ui, if spaced { entry } else { entry + 100 }, inp.clone()));
                            imeta.push((ci, entry, spaced, inp.clone()));
                        }
                    }
                }
            }
        }
        let Some(res) = implr_batch(ctx, dir, &units, &jobs) else { continue };
        ctx.add("implr_units", units.len() as u64);
        for ((ci, entry, spaced, inp), o) in imeta.iter().zip(res[meta.len()..].iter()) {
            let (g, algo, _, _) = &keep[*ci];
            let start = g.pubs[*entry];
            let lang = Lang::new(g, b.n_r + 1);
            ctx.count("implr_parses");
            ctx.count("implr_builtin_lexer_parses");
            if o.kind == "Uncompiled" {
                continue;
            }
            let member = lang.accepts(start, lang::from_slice(inp));
            let case = json!({"cfg": g, "grammar": gram::render_unit_intern(g, *algo, Codegen::Table), "algo": algo.name(), "codegen": "table", "lexer": "intern", "engine": "implr", "start": start, "input": inp, "spaced": spaced, "observed": o});
            if o.is_abnormal() {
                ctx.violation(&format!("builtin-lexer-{}", o.kind.to_lowercase()), format!("{} [{} built-in lexer] start N{} input {:?}: {}", g.describe(), algo.name(), start, inp, o.short()), case);
            } else if member != o.is_ok() && prop == Prop::C01 {
                let class = if member { "builtin-lexer-rejects-sentence" } else { "builtin-lexer-accepts-nonsentence" };
                ctx.violation(class, format!("{} [{} built-in lexer, tokens {}] start N{} input {:?}: in language = {}, parser says {}", g.describe(), algo.name(), if *spaced { "separated by spaces" } else { "adjacent" }, start, inp, member, o.short()), case);
            }
        }
        for ((ci, cg, entry, inp), o) in meta.iter().zip(res.iter()) {
            let (g, algo, l, _) = &keep[*ci];
            let start = g.pubs[*entry];
            let has_err = g.uses_error();
            let lang = Lang::new(g, b.n_r.max(inp.len()) + 1);
            if inp.len() > b.n_r {
                ctx.count("stress_inputs_replayed");
            }
            ctx.count("implr_parses");
            if *cg == Codegen::Ascent {
                ctx.count("implr_ascent_parses");
            }
            if o.kind == "Uncompiled" {
                continue;
            }
            let j = Judge { g, algo: *algo, codegen: *cg, engine: "implr", start, lang: &lang, input: inp };
            match prop {
                Prop::C01 => {
                    if !has_err {
                        j.c01(ctx, o)
                    }
                }
                Prop::C04 => {
                    if !has_err {
                        j.c04(ctx, o)
                    }
                }
                Prop::C05 => j.c05(ctx, o, !has_err),
                Prop::C08 => j.c08(ctx, o),
                Prop::C16 => {}
            }
            if *cg == Codegen::Table {
                let Some(t) = tables_for(l, start) else { continue };
                let tok_idx = implt::extern_tok_idx(t, g.terms.max(1));
                let stats = implt::new_stats(false);
                let r = implt::run_tokens(t, &tok_idx, &implt::gapped(inp), &stats);
                let ot = Obs::from_run(&r, |n| n.sexp(t));
                if ot.conforms(o) {
                    ctx.count("traces_validated");
                } else {
                    ctx.machinery(format!("Impl-T/Impl-R disagreement on {} [{}] start N{} input {:?}: model {} / compiled {}", g.describe(), algo.name(), start, inp, ot.short(), o.short()));
                }
            }
        }
    }
}

fn confirm(ctx: &mut Ctx, _prop: Prop, dir: &Path, pending: Vec<PendingConfirm>) {
    if pending.is_empty() {
        return;
    }
    let mut units = vec![];
    let mut jobs = vec![];
    for p in &pending {
        if p.g.uses_error() && false {
            continue;
        }
        let ui = units.len();
        units.push(RUnit { g: p.g.clone(), algo: p.algo, cg: Codegen::Table, intern: false });
        jobs.push((ui, p.entry, p.input.clone()));
    }
    let Some(res) = implr_batch(ctx, dir, &units, &jobs) else {
        ctx.machinery("could not confirm Impl-T counterexamples on Impl-R".to_string());
        return;
    };
    for (p, o) in pending.into_iter().zip(res.iter()) {
        if p.obs_t.conforms(o) || (p.obs_t.kind == "Panic" && o.kind == "Panic") {
            ctx.count("implt_counterexamples_confirmed_on_implr");
            for mut v in p.viols {
                if let Some(obj) = v.case.as_object_mut() {
                    obj.insert("confirmed_on_implr".into(), json!(o));
                }
                ctx.p.violations.push(v);
            }
        } else {
            ctx.machinery(format!("Impl-T counterexample not reproduced by the compiled parser: {} input {:?}: model {} / compiled {}", p.g.describe(), p.input, p.obs_t.short(), o.short()));
        }
    }
}

fn replay(ctx: &mut Ctx, prop: Prop, case: &Value, dir: &Path) {
    if case["family"].as_str() == Some("table-width") {
        c08_table_width(ctx, dir);
        return;
    }
    let g: Cfg = serde_json::from_value(case["cfg"].clone()).expect("cfg");
    let algo = match case["algo"].as_str() {
        Some("lr1") => Algo::Lr1,
        Some("lalr") => Algo::Lalr,
        _ => Algo::Lane,
    };
    let cg = if case["codegen"].as_str() == Some("ascent") { Codegen::Ascent } else { Codegen::Table };
    let input: Vec<u8> = serde_json::from_value(case["input"].clone()).unwrap_or_default();
    let start = case["start"].as_u64().unwrap_or(0) as usize;
    let entry = g.pubs.iter().position(|p| *p == start).unwrap_or(0);
    let lang = Lang::new(&g, input.len() + 2);
    // always replay on the compiled parser
    let units = vec![RUnit { g: g.clone(), algo, cg, intern: case["lexer"].as_str() == Some("intern") }];
    let jobs = vec![(0usize, if case["spaced"].as_bool() == Some(false) { entry + 100 } else { entry }, input.clone())];
    let Some(res) = implr_batch(ctx, dir, &units, &jobs) else { return };
    let o = &res[0];
    println!("replay on compiled parser: {}", o.short());
    let j = Judge { g: &g, algo, codegen: cg, engine: "implr", start, lang: &lang, input: &input };
    let has_err = g.uses_error();
    match prop {
        Prop::C01 => j.c01(ctx, o),
        Prop::C04 => j.c04(ctx, o),
        Prop::C05 => j.c05(ctx, o, !has_err),
        Prop::C08 => j.c08(ctx, o),
        Prop::C16 => {
            if let Some(l) = gen_lift(ctx, dir, &g, algo) {
                if let Some(t) = tables_for(&l, start) {
                    let tok_idx = implt::extern_tok_idx(t, g.terms.max(1));
                    let stats = implt::new_stats(false);
                    let r = implt::run_tokens(t, &tok_idx, &implt::gapped(&input), &stats);
                    let ot = Obs::from_run(&r, |n| n.sexp(t));
                    let mut g2 = g.clone();
                    for a in g2.alts.iter_mut() {
                        a.retain(|r| !r.contains(&Sym::Err));
                    }
                    let ln = Lang::new(&g2, input.len() + 2);
                    let jt = Judge { g: &g, algo, codegen: Codegen::Table, engine: "implt", start, lang: &lang, input: &input };
                    if let Outcome::Ok(tree) = &r.outcome {
                        c16_tree(ctx, &jt, t, tree, &ln, &ot);
                    }
                }
            }
        }
    }
    let _ = prop.id();
}

// ---------------------------------------------------------------------------------------
// C08 (c): table-width boundaries. The generated tables use the narrowest of i8/i16/i32 that holds
// the state and production numbers; grammars with a second, tiny entry point and k = 122..=128
// alternatives put the production count on both sides of the i8 boundary while the entry point's
// own automaton stays small. Compiled with overflow checks and debug assertions ON (dev-profile
// lalrpop-util), both backends; oracle: no panic, Ok exactly on the alternatives, table = ascent.

fn c08_table_width(ctx: &mut Ctx, dir: &Path) {
    let env = match implr::rustc_env_checked() {
        Ok(e) => e,
        Err(e) => {
            ctx.machinery(format!("checked rustc environment: {}", e));
            return;
        }
    };
    // distinct token strings of length 1..3 over seven terminals, shortest first
    let mut words: Vec<Vec<u8>> = vec![];
    for len in 1..=3usize {
        for code in 0..7usize.pow(len as u32) {
            let mut c = code;
            let mut w = vec![];
            for _ in 0..len {
                w.push((c % 7) as u8);
                c /= 7;
            }
            words.push(w);
        }
    }
    let gdir = drv::scratch_sub(dir, "wgen");
    let mut units = vec![];
    let mut meta = vec![]; // (k, codegen)
    for k in 122..=128usize {
        for cg in [Codegen::Table, Codegen::Ascent] {
            let mut text = String::from("use super::Tok;\n");
            text.push_str(&gram::grammar_attrs(Algo::Lane, cg));
            text.push_str("grammar;\n");
            text.push_str(&gram::extern_block(8));
            text.push_str("pub N0: () = {\n");
            for w in &words[..k] {
                text.push_str(&format!("    {} => (),\n", w.iter().map(|t| format!("\"{}\"", gram::TNAMES[*t as usize])).collect::<Vec<_>>().join(" ")));
            }
            text.push_str("};\npub N1: () = { \"h\" => () };\n");
            let out = drv::generate_in(&gdir, text.as_bytes(), &GenOpts::default());
            ctx.count("generations");
            if !out.ok {
                ctx.machinery(format!("table-width grammar with {} alternatives rejected: {}", k, out.diag.lines().next().unwrap_or("")));
                continue;
            }
            let g2 = Cfg { nts: 2, terms: 8, alts: vec![vec![], vec![]], pubs: vec![0, 1] };
            units.push(implr::Unit { rs: out.rs.unwrap(), glue: unit_glue(&g2) });
            meta.push((k, cg));
        }
    }
    let bdir = dir.join("wbuild");
    let _ = std::fs::remove_dir_all(&bdir);
    let built = match implr::build(&env, &bdir, &units, "") {
        Ok(b) => b,
        Err(e) => {
            ctx.machinery(format!("table-width build: {}", e));
            return;
        }
    };
    let mut jobs = vec![];
    let mut jm = vec![];
    for (u, (k, _)) in meta.iter().enumerate() {
        if built.unit_errors[u].is_some() {
            ctx.violation("table-width-grammar-does-not-compile", format!("grammar with {} alternatives: {:?}", k, built.unit_errors[u]), json!({"alternatives": k}));
            continue;
        }
        // entry 0: every alternative, the first word that is not one, the empty input; entry 1
        let mut ins: Vec<(usize, Vec<u8>, bool)> = words[..*k].iter().map(|w| (0usize, w.clone(), true)).collect();
        ins.push((0, words[*k].clone(), false));
        ins.push((0, vec![], false));
        ins.push((1, vec![7], true));
        ins.push((1, vec![0], false));
        ins.push((1, vec![], false));
        for (entry, inp, member) in ins {
            jobs.push(implr::Job { unit: u, entry, input: obs::input_string(&inp) });
            jm.push((u, entry, inp, member));
        }
    }
    let res = implr::run(&built, &jobs, 60_000);
    let _ = std::fs::remove_dir_all(&bdir);
    let mut by: std::collections::HashMap<(usize, usize, Vec<u8>), Obs> = std::collections::HashMap::new();
    for ((u, entry, inp, member), v) in jm.iter().zip(res.iter()) {
        let o = Obs::from_json(v);
        let (k, cg) = meta[*u];
        ctx.count("parses");
        ctx.count("table_width_parses");
        let case = json!({"family": "table-width", "alternatives": k, "codegen": cg.name(), "entry": entry, "input": inp, "observed": o});
        if o.is_abnormal() {
            ctx.violation(&format!("{}-{}", cg.name(), o.kind.to_lowercase()), format!("table-width grammar with {} alternatives [{} , overflow checks on] entry N{} input {:?}: {}", k, cg.name(), entry, inp, o.short()), case);
        } else if o.is_ok() != *member {
            ctx.violation(&format!("{}-wrong-acceptance", cg.name()), format!("table-width grammar with {} alternatives [{}] entry N{} input {:?}: member={} but {}", k, cg.name(), entry, inp, member, o.short()), case);
        }
        by.insert((*u, *entry, inp.clone()), o);
    }
    // table vs ascent
    for (u, (k, cg)) in meta.iter().enumerate() {
        if *cg != Codegen::Table {
            continue;
        }
        let Some(ua) = meta.iter().position(|(k2, c2)| k2 == k && *c2 == Codegen::Ascent) else { continue };
        for ((u2, entry, inp, _), _) in jm.iter().zip(res.iter()) {
            if *u2 != u {
                continue;
            }
            if let (Some(a), Some(b)) = (by.get(&(u, *entry, inp.clone())), by.get(&(ua, *entry, inp.clone()))) {
                if !a.same_modulo_expected(b) {
                    ctx.violation("table-ascent-differ", format!("table-width grammar with {} alternatives entry N{} input {:?}: table {} / ascent {}", k, entry, inp, a.short(), b.short()), json!({"family": "table-width", "alternatives": k, "entry": entry, "input": inp}));
                }
            }
        }
    }
}

// ---------------------------------------------------------------------------------------
// C08 (a): the built-in lexer never keeps yielding empty tokens

pub fn lexer_strings(alphabet: &[&str], n: usize) -> Vec<String> {
    let mut out = vec![String::new()];
    let mut layer = vec![String::new()];
    for _ in 0..n {
        let mut nl = vec![];
        for s in &layer {
            for a in alphabet {
                nl.push(format!("{}{}", s, a));
            }
        }
        out.extend(nl.iter().cloned());
        layer = nl;
    }
    out
}

fn c08_lexer(ctx: &mut Ctx, dir: &Path) {
    let terms = ["\"a\"", "\"b\"", "r\"a*\"", "r\"b?\"", "r\"(ab)*\"", "r\"[ab]+\"", "r\"a|\"", "r\"\"", "r\"(a|b)*c\"", "r\"a*b*\""];
    let skips = ["", "r\"\\s*\" => { },", "r\"c*\" => { },", "r\"c+\" => { },", "r\"( |c)*\" => { },"];
    let strings = lexer_strings(&["a", "b", "c", " ", "é"], ctx.tier.pick(4, 5));
    let mut idx = 1u64 << 40;
    let mut sets: Vec<Vec<&str>> = vec![];
    for i in 0..terms.len() {
        sets.push(vec![terms[i]]);
        for j in i + 1..terms.len() {
            sets.push(vec![terms[i], terms[j]]);
        }
    }
    for set in &sets {
        for skip in skips {
            idx += 1;
            if !ctx.mine(idx) || !ctx.begin_case(idx) {
                continue;
            }
            let mut text = String::from("grammar;\n");
            if !skip.is_empty() {
                text.push_str(&format!("match {{\n    {}\n    _\n}}\n", skip));
            }
            text.push_str("pub S: () = {\n");
            for t in set {
                text.push_str(&format!("    {} => (),\n", t));
            }
            text.push_str("};\n");
            let out = drv::generate_in(dir, text.as_bytes(), &GenOpts::default());
            ctx.count("lexer_grammars");
            if !out.ok {
                ctx.count("lexer_grammars_rejected");
                ctx.end_case();
                continue;
            }
            let lifted = match lift::lift(out.rs.as_ref().unwrap()) {
                Ok(l) => l,
                Err(e) => {
                    ctx.machinery(format!("lexer lift: {} for {}", e, text));
                    ctx.end_case();
                    continue;
                }
            };
            let Some(list) = lifted.lexer else {
                ctx.machinery("no lexer list lifted".to_string());
                ctx.end_case();
                continue;
            };
            let builder = match lalrpop_util::lexer::MatcherBuilder::new(list.iter().map(|(s, b)| (s.as_str(), *b))) {
                Ok(b) => b,
                Err(e) => {
                    ctx.violation("lexer-build-fails", format!("MatcherBuilder::new fails for accepted grammar: {}", e), json!({"grammar": text}));
                    ctx.end_case();
                    continue;
                }
            };
            ctx.count("lexer_grammars_accepted");
            for s in &strings {
                ctx.count("lexer_runs");
                let cap = 3 * s.len() + 10;
                let mut n = 0;
                let mut last: Option<(usize, usize)> = None;
                let mut bad: Option<String> = None;
                let res = std::panic::catch_unwind(std::panic::AssertUnwindSafe(|| {
                    for item in builder.matcher::<&str>(s) {
                        n += 1;
                        match item {
                            Ok((l, _, r)) => {
                                if l == r {
                                    ctx.count("lexer_empty_tokens_seen");
                                    if last == Some((l, r)) {
                                        bad = Some(format!("two consecutive empty tokens at {}", l));
                                        break;
                                    }
                                }
                                last = Some((l, r));
                            }
                            Err(_) => break,
                        }
                        if n > cap {
                            bad = Some(format!("more than {} items", cap));
                            break;
                        }
                    }
                }));
                if res.is_err() {
                    bad = Some(format!("panic {:?}", drv::take_last_panic()));
                }
                if let Some(b) = bad {
                    ctx.violation("lexer-empty-token-loop", format!("terminals {:?} skip `{}` input {:?}: {}", set, skip, s, b), json!({"grammar": text, "input": s, "kind": "lexer"}));
                    break;
                }
            }
            ctx.end_case();
        }
    }
}
