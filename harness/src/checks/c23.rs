//! C23: each grammar file maps to exactly one output at the documented path.
//! Bounded-exhaustive directory trees x configurations, against a small reference of the
//! documented path rule; real `Configuration::process*` calls on real directories.

use crate::drv;
use crate::fw::{CheckDef, Ctx, Tier};
use serde_json::json;
use std::collections::BTreeSet;
use std::path::{Path, PathBuf};

pub fn def() -> CheckDef {
    CheckDef {
        id: "C23",
        level: "exploration",
        rule: "all trees with <= k entries (quick 3, thorough 4) from a universe of 43 paths: directories {root, src, a, b.c, src/a, a/src} x names {x.lalrpop, y.z.lalrpop, `p q.lalrpop`, x.txt, x.lalrpop.bak, l.lalrpop -> x.lalrpop (symlink to file), d.lalrpop (dangling symlink)} plus a directory symlink ld -> a; x configurations {process_file, process_file + out dir, process_dir + OUT_DIR, set_in_dir + set_out_dir + process, set_out_dir + process_dir, use_cargo_dir_conventions (cwd = root), set_in_dir + process_dir(other) (must be refused)} x emit_rerun_directives; oracle: a 30-line reference of the documented rule gives the expected set of created files (beside the input, or out/(dir relative to in_dir minus a leading src)/name.rs); the files created must be exactly that set, non-grammar files untouched, whitespace names rejected, rerun directives = processed files. The CLI with and without -o is run on a sub-sample. distinct_nontrivial = (tree, configuration) runs that discovered at least one grammar in a subdirectory, through a symlink, or next to an ignorable entry",
        evaluations: "runs",
        nontrivial: "nontrivial_runs",
        mc: None,
        require: &["runs", "nontrivial_runs", "ok_runs", "refused_runs", "whitespace_rejections", "symlink_discoveries", "src_stripped", "directive_checks", "cli_runs"],
        exhaustive: true,
        assumptions: &["the reference transcribes the documented rule of build/mod.rs gen_resolve_file as stated in the property", "two inputs that map to one output path (a/x and src/a/x) are expected by the rule itself and compared as a set"],
        shards: 0,
        run,
        crash_class: Some("builder"),
    }
}

const GRAMMAR: &str = "grammar;\npub S: () = \"a\" => ();\n";
const DIRS: [&str; 6] = ["", "src", "a", "b.c", "src/a", "a/src"];
const NAMES: [&str; 7] = ["x.lalrpop", "y.z.lalrpop", "p q.lalrpop", "x.txt", "x.lalrpop.bak", "l.lalrpop", "d.lalrpop"];

#[derive(Clone, Debug, PartialEq, Eq, PartialOrd, Ord)]
enum Entry {
    File(usize, usize), // dir index, name index
    DirLink,            // ld -> a
}

fn universe() -> Vec<Entry> {
    let mut v = vec![];
    for d in 0..DIRS.len() {
        for n in 0..NAMES.len() {
            v.push(Entry::File(d, n));
        }
    }
    v.push(Entry::DirLink);
    v
}

fn rel(d: usize, n: usize) -> PathBuf {
    if DIRS[d].is_empty() { PathBuf::from(NAMES[n]) } else { Path::new(DIRS[d]).join(NAMES[n]) }
}

/// build the tree; returns false if the tree is not well-formed (link without target)
fn materialise(root: &Path, tree: &[Entry]) -> bool {
    let _ = std::fs::remove_dir_all(root);
    std::fs::create_dir_all(root).unwrap();
    for e in tree {
        match e {
            Entry::File(d, n) => {
                let p = root.join(rel(*d, *n));
                std::fs::create_dir_all(p.parent().unwrap()).unwrap();
                match NAMES[*n] {
                    "l.lalrpop" => {
                        if !tree.contains(&Entry::File(*d, 0)) {
                            return false;
                        }
                        std::os::unix::fs::symlink("x.lalrpop", &p).unwrap();
                    }
                    "d.lalrpop" => std::os::unix::fs::symlink("nowhere.lalrpop", &p).unwrap(),
                    "x.txt" => std::fs::write(&p, "not a grammar").unwrap(),
                    _ => std::fs::write(&p, GRAMMAR).unwrap(),
                }
            }
            Entry::DirLink => {
                if !tree.iter().any(|e| matches!(e, Entry::File(2, _))) {
                    return false;
                }
                std::os::unix::fs::symlink("a", root.join("ld")).unwrap();
            }
        }
    }
    true
}

/// reference discovery: recursive, following symlinks, skipping dangling ones, files whose
/// extension is exactly `lalrpop`; returns paths as LALRPOP will name them (start joined)
fn discover(start: &Path) -> Vec<PathBuf> {
    let mut out = vec![];
    fn walk(d: &Path, out: &mut Vec<PathBuf>) {
        let Ok(rd) = std::fs::read_dir(d) else { return };
        let mut names: Vec<_> = rd.filter_map(|e| e.ok()).map(|e| e.file_name()).collect();
        names.sort();
        for n in names {
            let p = d.join(&n);
            match std::fs::metadata(&p) {
                Err(_) => continue, // dangling symlink
                Ok(m) => {
                    if m.is_dir() {
                        walk(&p, out);
                    } else if m.is_file() && p.extension().map(|x| x == "lalrpop").unwrap_or(false) {
                        out.push(p);
                    }
                }
            }
        }
    }
    walk(start, &mut out);
    out
}

/// the documented path rule
fn expected_out(file: &Path, in_dir: Option<&Path>, out_dir: Option<&Path>) -> PathBuf {
    let name = Path::new(file.file_name().unwrap()).with_extension("rs");
    match out_dir {
        None => file.parent().unwrap().join(name),
        Some(o) => {
            let mut relp = PathBuf::new();
            if let Some(i) = in_dir {
                let parent = file.parent().unwrap();
                let r = parent.strip_prefix(i).unwrap_or(Path::new(""));
                let r = r.strip_prefix("src").unwrap_or(r);
                relp = r.to_path_buf();
            }
            o.join(relp).join(name)
        }
    }
}

fn snapshot(dirs: &[&Path]) -> BTreeSet<PathBuf> {
    let mut s = BTreeSet::new();
    fn walk(d: &Path, s: &mut BTreeSet<PathBuf>, depth: usize) {
        if depth > 6 {
            return;
        }
        let Ok(rd) = std::fs::read_dir(d) else { return };
        for e in rd.filter_map(|e| e.ok()) {
            let p = e.path();
            let Ok(m) = std::fs::symlink_metadata(&p) else { continue };
            if m.is_dir() {
                walk(&p, s, depth + 1);
            } else {
                s.insert(p);
            }
        }
    }
    for d in dirs {
        walk(d, &mut s, 0);
    }
    s
}

fn canon_set(s: &BTreeSet<PathBuf>) -> BTreeSet<PathBuf> {
    // outputs written through a directory symlink are the same file as the direct path
    s.iter().map(|p| p.parent().and_then(|d| std::fs::canonicalize(d).ok()).map(|d| d.join(p.file_name().unwrap())).unwrap_or(p.clone())).collect()
}

#[derive(Clone, Copy, Debug, PartialEq, Eq)]
enum Cfg {
    File,
    FileOut,
    DirEnvOut,
    InOutProcess,
    OutProcessDir,
    CargoConventions,
    InDirConflict,
}

fn run(ctx: &mut Ctx) {
    let base = drv::scratch_sub(&ctx.scratch.clone(), "c23");
    let root = base.join("root");
    let out = base.join("out");
    let thorough = ctx.tier == Tier::Thorough;
    let uni = universe();
    let k = if thorough { 4 } else { 3 };
    // enumerate subsets of size 1..=k
    let mut trees: Vec<Vec<Entry>> = vec![];
    fn rec(uni: &[Entry], from: usize, cur: &mut Vec<Entry>, k: usize, out: &mut Vec<Vec<Entry>>) {
        if !cur.is_empty() {
            out.push(cur.clone());
        }
        if cur.len() == k {
            return;
        }
        for i in from..uni.len() {
            cur.push(uni[i].clone());
            rec(uni, i + 1, cur, k, out);
            cur.pop();
        }
    }
    rec(&uni, 0, &mut vec![], k, &mut trees);
    ctx.note("trees_total", json!(trees.len()));
    let cfgs = [Cfg::File, Cfg::FileOut, Cfg::DirEnvOut, Cfg::InOutProcess, Cfg::OutProcessDir, Cfg::CargoConventions, Cfg::InDirConflict];
    let orig_cwd = std::env::current_dir().unwrap();
    for (ti, tree) in trees.iter().enumerate() {
        if !ctx.mine(ti as u64) || !ctx.begin_case(ti as u64) {
            continue;
        }
        ctx.case_detail(&json!({"tree": format!("{:?}", tree)}));
        for (ci, cfg) in cfgs.iter().enumerate() {
            let rerun = (ti + ci) % 2 == 0;
            if !materialise(&root, tree) {
                break;
            }
            if *cfg == Cfg::CargoConventions && !root.join("src").is_dir() {
                continue; // cargo conventions need a src directory
            }
            let _ = std::fs::remove_dir_all(&out);
            std::fs::create_dir_all(&out).unwrap();
            let before = snapshot(&[&root, &out]);
            let before_content: Vec<(PathBuf, Vec<u8>)> = before.iter().filter_map(|p| std::fs::read(p).ok().map(|b| (p.clone(), b))).collect();
            // the call
            let mut c = lalrpop::Configuration::new();
            c.never_use_colors().log_quiet().emit_rerun_directives(rerun);
            unsafe { std::env::remove_var("OUT_DIR") };
            let all = discover(&root);
            let (in_dir, out_dir, inputs): (Option<PathBuf>, Option<PathBuf>, Vec<PathBuf>) = match cfg {
                Cfg::File | Cfg::FileOut => {
                    // the first regular grammar path in the tree (whitespace one included)
                    let Some(f) = all.first().cloned() else { continue };
                    (None, if *cfg == Cfg::FileOut { Some(out.clone()) } else { None }, vec![f])
                }
                Cfg::DirEnvOut | Cfg::InOutProcess | Cfg::OutProcessDir | Cfg::InDirConflict => (Some(root.clone()), Some(out.clone()), all.clone()),
                Cfg::CargoConventions => (Some(PathBuf::from("src")), Some(out.clone()), vec![]),
            };
            let cap = base.join("cap.txt");
            let call = || -> Result<(), String> {
                match cfg {
                    Cfg::File => c.process_file(&inputs[0]).map_err(|e| e.to_string()),
                    Cfg::FileOut => {
                        c.set_out_dir(&out);
                        c.process_file(&inputs[0]).map_err(|e| e.to_string())
                    }
                    Cfg::DirEnvOut => {
                        unsafe { std::env::set_var("OUT_DIR", &out) };
                        c.process_dir(&root).map_err(|e| e.to_string())
                    }
                    Cfg::InOutProcess => {
                        c.set_in_dir(&root).set_out_dir(&out);
                        c.process().map_err(|e| e.to_string())
                    }
                    Cfg::OutProcessDir => {
                        c.set_out_dir(&out);
                        c.process_dir(&root).map_err(|e| e.to_string())
                    }
                    Cfg::CargoConventions => {
                        unsafe { std::env::set_var("OUT_DIR", &out) };
                        std::env::set_current_dir(&root).unwrap();
                        c.use_cargo_dir_conventions();
                        let r = c.process().map_err(|e| e.to_string());
                        std::env::set_current_dir(&orig_cwd).unwrap();
                        r
                    }
                    Cfg::InDirConflict => {
                        c.set_in_dir(&root).set_out_dir(&out);
                        c.process_dir(root.join("a")).map_err(|e| e.to_string())
                    }
                }
            };
            let (res, diag) = drv::capture(&cap, || std::panic::catch_unwind(std::panic::AssertUnwindSafe(call)));
            let _ = std::env::set_current_dir(&orig_cwd);
            unsafe { std::env::remove_var("OUT_DIR") };
            ctx.count("runs");
            let case = json!({"tree": format!("{:?}", tree), "config": format!("{:?}", cfg), "rerun_directives": rerun, "diag": diag.chars().take(300).collect::<String>()});
            let res = match res {
                Ok(r) => r,
                Err(_) => {
                    ctx.violation("builder-panic", format!("{:?} {:?}: {:?}", tree, cfg, drv::take_last_panic()), case);
                    continue;
                }
            };
            let after = snapshot(&[&root, &out]);
            let created: BTreeSet<PathBuf> = after.difference(&before).cloned().collect();
            // untouched non-outputs
            for (p, b) in &before_content {
                if std::fs::read(p).ok().as_ref() != Some(b) {
                    ctx.violation("input-modified", format!("{:?} {:?}: {} was modified or removed", tree, cfg, p.display()), case.clone());
                }
            }
            // expectation
            let (discovered, in_dir_abs): (Vec<PathBuf>, Option<PathBuf>) = match cfg {
                Cfg::File | Cfg::FileOut => (inputs.clone(), None),
                Cfg::CargoConventions => {
                    // relative in_dir `src`, cwd = root: discovered paths are relative
                    let d = discover(&root.join("src"));
                    (d, Some(root.join("src")))
                }
                Cfg::InDirConflict => (vec![], None),
                _ => (all.clone(), in_dir.clone()),
            };
            if *cfg == Cfg::InDirConflict {
                ctx.count("refused_runs");
                if res.is_ok() || !created.is_empty() {
                    ctx.violation("in-dir-conflict-not-refused", format!("{:?}: set_in_dir(root) + process_dir(root/a) returned {:?} and created {:?}", tree, res, created), case);
                }
                continue;
            }
            let has_ws = discovered.iter().any(|p| p.file_name().unwrap().to_string_lossy().contains(char::is_whitespace));
            let expected: BTreeSet<PathBuf> = discovered.iter().filter(|p| !p.file_name().unwrap().to_string_lossy().contains(char::is_whitespace)).map(|p| expected_out(p, in_dir_abs.as_deref(), out_dir.as_deref())).collect();
            let nontrivial = discovered.iter().any(|p| p.parent() != Some(&root)) || tree.iter().any(|e| matches!(e, Entry::DirLink | Entry::File(_, 3..=6)));
            if nontrivial {
                ctx.count("nontrivial_runs");
            }
            if tree.iter().any(|e| matches!(e, Entry::DirLink | Entry::File(_, 5))) && !discovered.is_empty() {
                ctx.count("symlink_discoveries");
            }
            if out_dir.is_some() && discovered.iter().any(|p| p.strip_prefix(&root).map(|r| r.starts_with("src")).unwrap_or(false)) && in_dir_abs.as_deref() == Some(&root) {
                ctx.count("src_stripped");
            }
            if has_ws {
                ctx.count("whitespace_rejections");
                if res.is_ok() {
                    ctx.violation("whitespace-name-accepted", format!("{:?} {:?}: a grammar file name with white space was not rejected", tree, cfg), case.clone());
                }
                let extra: Vec<_> = canon_set(&created).difference(&canon_set(&expected)).cloned().collect();
                if !extra.is_empty() {
                    ctx.violation("unexpected-file-created", format!("{:?} {:?}: created {:?}", tree, cfg, extra), case);
                }
                continue;
            }
            match &res {
                Err(e) => {
                    ctx.violation("build-fails", format!("{:?} {:?}: {}", tree, cfg, e), case.clone());
                    continue;
                }
                Ok(()) => ctx.count("ok_runs"),
            }
            let (cs, es) = (canon_set(&created), canon_set(&expected));
            if cs != es {
                let missing: Vec<_> = es.difference(&cs).collect();
                let extra: Vec<_> = cs.difference(&es).collect();
                let class = if !extra.is_empty() && !missing.is_empty() { "output-at-wrong-path" } else if !missing.is_empty() { "output-missing" } else { "unexpected-file-created" };
                ctx.violation(class, format!("{:?} {:?}: expected outputs {:?}, created {:?}", tree, cfg, expected, created), case.clone());
            }
            // rerun directives
            let dirs: BTreeSet<String> = diag.lines().filter_map(|l| l.strip_prefix("cargo:rerun-if-changed=")).map(|s| s.to_string()).collect();
            if rerun {
                ctx.count("directive_checks");
                let want: BTreeSet<String> = match cfg {
                    Cfg::CargoConventions => discover(&root.join("src")).iter().map(|p| Path::new("src").join(p.strip_prefix(root.join("src")).unwrap()).to_string_lossy().to_string()).collect(),
                    _ => discovered.iter().map(|p| p.to_string_lossy().to_string()).collect(),
                };
                if dirs != want {
                    ctx.violation("rerun-directives-wrong", format!("{:?} {:?}: directives {:?}, processed files {:?}", tree, cfg, dirs, want), case.clone());
                }
            } else if !dirs.is_empty() {
                ctx.violation("rerun-directives-when-disabled", format!("{:?} {:?}: {:?}", tree, cfg, dirs), case.clone());
            }
        }
        if ti % 211 == 7 {
            ctx.sample(json!({"tree": format!("{:?}", tree)}));
        }
        ctx.end_case();
    }
    // CLI sub-sample (process spawns are slow here): with and without -o
    let cli = crate::fw::verif_dir().join("target/cli/release/lalrpop");
    if cli.exists() {
        let step = if thorough { 97 } else { 23 };
        for (ti, tree) in trees.iter().enumerate().step_by(step) {
            if !ctx.mine((ti / step) as u64) || !ctx.begin_case(u64::MAX / 4 + ti as u64) {
                continue;
            }
            for with_o in [false, true] {
                if !materialise(&root, tree) {
                    break;
                }
                let _ = std::fs::remove_dir_all(&out);
                std::fs::create_dir_all(&out).unwrap();
                let all = discover(&root);
                if all.iter().any(|p| p.file_name().unwrap().to_string_lossy().contains(char::is_whitespace)) || all.is_empty() {
                    continue;
                }
                let before = snapshot(&[&root, &out]);
                let mut cmd = std::process::Command::new(&cli);
                cmd.current_dir(&root).stdout(std::process::Stdio::null()).stderr(std::process::Stdio::null());
                if with_o {
                    cmd.arg("-o").arg(&out);
                }
                // the CLI takes files; pass every discovered grammar by its path relative to root
                for f in &all {
                    cmd.arg(f.strip_prefix(&root).unwrap());
                }
                let st = cmd.status().expect("cli");
                ctx.count("cli_runs");
                ctx.count("runs");
                let created: BTreeSet<PathBuf> = snapshot(&[&root, &out]).difference(&before).cloned().collect();
                // the CLI processes each file alone: out dir -> directly in out dir
                let expected: BTreeSet<PathBuf> = all.iter().map(|p| expected_out(p, None, if with_o { Some(out.as_path()) } else { None })).collect();
                if !st.success() || canon_set(&created) != canon_set(&expected) {
                    ctx.violation("cli-output-paths", format!("{:?} -o={}: status {:?}, expected {:?}, created {:?}", tree, with_o, st.code(), expected, created), json!({"tree": format!("{:?}", tree), "with_o": with_o}));
                }
            }
            ctx.end_case();
        }
    }
}
