//! C15 (cfg = deletion), C24 (formatting options), C26 (layout insensitivity, verbatim Rust):
//! in-process generation + Rust token-stream equality (`rtok`).

use crate::checks::c18;
use crate::drv::{self, GenOpts};
use crate::fw::{CheckDef, Ctx, Tier};
use crate::gram::Algo;
use serde_json::json;
use std::path::Path;
use std::str::FromStr;

pub fn defs() -> Vec<CheckDef> {
    vec![
        CheckDef {
            id: "C15",
            level: "exploration",
            rule: "a template grammar with #[cfg(P)] on a nonterminal (and its complement twin), on alternatives (one with two cfg attributes) and on two extern conversions of one terminal; P ranges over all well-formed predicate trees of depth <= 2 over feature=\"f\", feature=\"g\", feature=\"foo-bar\", not, all, any (0-2 arguments), one slot at a time and all pairs on the double-cfg slot; x all 8 feature sets given with set_features, and via CARGO_FEATURE_* with process_dir; oracle: the harness evaluates P with Rust semantics, deletes the inactive declarations from the text, and generate(G, F) must be token-identical (after the two header lines) to generate(G_deleted, no features), or both must fail. distinct_nontrivial = (grammar, feature set) pairs in which at least one declaration was deleted and at least one cfg-carrying declaration kept",
            evaluations: "comparisons",
            nontrivial: "mixed_comparisons",
            mc: None,
            require: &["comparisons", "mixed_comparisons", "both_ok", "both_fail", "via_env"],
            exhaustive: true,
            assumptions: &["Rust semantics of cfg predicates: all() is true, any() is false, not takes one argument"],
            shards: 0,
            run: run_c15,
            crash_class: Some("generator"),
        },
        CheckDef {
            id: "C24",
            level: "exploration",
            rule: "every seed grammar of the repository that LALRPOP accepts standalone (size cap), the harness seeds, and value-building renderings of small skeletons, each as written and with #[recursive_ascent], x all 8 combinations of emit_comments / emit_whitespace / emit_report; oracle: the Rust token stream (proc_macro2; comments and whitespace vanish, literals and punctuation are preserved) after the two header lines equals the one of the default configuration. distinct_nontrivial = (grammar, flags) pairs with a non-default flag whose raw text differs from the default output",
            evaluations: "comparisons",
            nontrivial: "textually_different",
            mc: None,
            require: &["comparisons", "textually_different", "ascent_grammars", "table_grammars"],
            exhaustive: true,
            assumptions: &["token-stream equality of the generated module implies equal behaviour"],
            shards: 0,
            run: run_c24,
            crash_class: Some("generator"),
        },
        CheckDef {
            id: "C26",
            level: "exploration",
            rule: "(a) for each seed/harness grammar that LALRPOP accepts, each filler of {space, newline, tab, `// c\\n`, `/* c */`, `/* /* n */ */`, `/* a/*/b*/c **/` (a nested opener directly followed by `/`, a closer preceded by `*`), `/*/**/*/`} inserted at each token gap separately, at all gaps at once, and all removable whitespace removed; oracle: outputs token-identical after the header. (b) action snippets: all sequences of <= 3 atoms (thorough 4) from {string/raw-string/char/byte literals containing braces, quotes and backslashes, nested (), [], {} groups, line and block comments, lifetimes, keywords} that are balanced Rust by construction, placed in an action, a `use`, a type annotation and a `#![..]` attribute; oracle: the output's token stream equals the output for a placeholder with the placeholder replaced by the snippet's tokens. distinct_nontrivial = perturbed texts / snippets that are accepted and byte-different from the original",
            evaluations: "texts",
            nontrivial: "accepted_perturbations",
            mc: None,
            require: &["texts", "accepted_perturbations", "gap_insertions", "snippets", "snippets_with_raw_string", "snippets_with_char_literal"],
            exhaustive: true,
            assumptions: &["the harness tokenizer finds token gaps of the grammar text; Rust multi-character operators are kept whole so that a filler never splits one"],
            shards: 0,
            run: run_c26,
            crash_class: Some("generator"),
        },
    ]
}

// ---------------------------------------------------------------------------------------
// rtok

pub fn rtok(text: &str) -> Result<Vec<String>, String> {
    fn flat(ts: proc_macro2::TokenStream, out: &mut Vec<String>) {
        let tts: Vec<proc_macro2::TokenTree> = ts.into_iter().collect();
        for (i, tt) in tts.iter().enumerate() {
            match tt {
                proc_macro2::TokenTree::Group(g) => {
                    let (o, c) = match g.delimiter() {
                        proc_macro2::Delimiter::Parenthesis => ("(", ")"),
                        proc_macro2::Delimiter::Brace => ("{", "}"),
                        proc_macro2::Delimiter::Bracket => ("[", "]"),
                        proc_macro2::Delimiter::None => ("", ""),
                    };
                    out.push(o.to_string());
                    flat(g.stream(), out);
                    out.push(c.to_string());
                }
                proc_macro2::TokenTree::Punct(p) => {
                    // jointness is part of the token only where the two characters form a Rust
                    // operator (`< <` is not `<<`); `,-` and the like are two tokens either way
                    let mut s = p.as_char().to_string();
                    if p.spacing() == proc_macro2::Spacing::Joint {
                        if let Some(proc_macro2::TokenTree::Punct(q)) = tts.get(i + 1) {
                            let pair = format!("{}{}", p.as_char(), q.as_char());
                            const OPS: [&str; 24] = ["<<", ">>", "&&", "||", "==", "!=", "<=", ">=", "+=", "-=", "*=", "/=", "%=", "^=", "&=", "|=", "..", "::", "->", "=>", "<-", ".=", "'a", "##"];
                            if OPS.contains(&pair.as_str()) || p.as_char() == '\'' {
                                s.push('~');
                            }
                        } else if p.as_char() == '\'' {
                            s.push('~');
                        }
                    }
                    out.push(s)
                }
                other => out.push(other.to_string()),
            }
        }
    }
    let ts = proc_macro2::TokenStream::from_str(text).map_err(|e| format!("{:?}", e))?;
    let mut v = vec![];
    flat(ts, &mut v);
    // a function body `{ () }` is the same program as `{ }` (LALRPOP omits the body when the
    // action text is exactly `()`, and keeps it when it is `( )`)
    let mut w: Vec<String> = Vec::with_capacity(v.len());
    let mut i = 0;
    while i < v.len() {
        if i + 3 < v.len() && v[i] == "{" && v[i + 1] == "(" && v[i + 2] == ")" && v[i + 3] == "}" {
            w.push("{".into());
            w.push("}".into());
            i += 4;
        } else {
            w.push(v[i].clone());
            i += 1;
        }
    }
    Ok(w)
}

pub fn body_after_header(rs: &str) -> &str {
    let mut it = rs.splitn(3, '\n');
    let _ = it.next();
    let _ = it.next();
    it.next().unwrap_or("")
}

fn first_diff(a: &[String], b: &[String]) -> String {
    let n = a.iter().zip(b.iter()).take_while(|(x, y)| x == y).count();
    let ctx = |v: &[String]| v[n.saturating_sub(6)..(n + 6).min(v.len())].join(" ");
    format!("token #{}: `{}` vs `{}`", n, ctx(a), ctx(b))
}

// ---------------------------------------------------------------------------------------
// C24

fn with_ascent(text: &str) -> Option<String> {
    // insert #[recursive_ascent] before the grammar declaration (a line starting with `grammar`)
    let mut out = String::new();
    let mut done = false;
    for line in text.split_inclusive('\n') {
        if !done && (line.starts_with("grammar;") || line.starts_with("grammar<") || line.starts_with("grammar(") || line.trim_end() == "grammar") {
            out.push_str("#[recursive_ascent]\n");
            done = true;
        }
        out.push_str(line);
    }
    if done && !text.contains("recursive_ascent") && !text.contains("test_all") && !text.contains("table_driven") { Some(out) } else { None }
}

pub fn seed_texts(max: usize) -> Vec<(String, String)> {
    let mut v = vec![];
    fn walk(d: &Path, out: &mut Vec<std::path::PathBuf>) {
        if let Ok(rd) = std::fs::read_dir(d) {
            let mut es: Vec<_> = rd.filter_map(|e| e.ok()).collect();
            es.sort_by_key(|e| e.file_name());
            for e in es {
                let p = e.path();
                if p.is_dir() {
                    if p.file_name().map(|n| n == "target").unwrap_or(false) {
                        continue;
                    }
                    walk(&p, out);
                } else if p.extension().map(|x| x == "lalrpop").unwrap_or(false) {
                    out.push(p);
                }
            }
        }
    }
    let mut files = vec![];
    walk(Path::new("/repo"), &mut files);
    for f in files {
        if let Ok(t) = std::fs::read_to_string(&f) {
            if t.len() <= max {
                v.push((f.display().to_string(), t));
            }
        }
    }
    for (i, s) in c18::HARNESS_SEEDS.iter().enumerate() {
        v.push((format!("harness-seed-{}", i), s.to_string()));
    }
    v
}

fn run_c24(ctx: &mut Ctx) {
    // a case is several generations of one grammar (the larger repository grammars take seconds
    // each under the ascent backend); the budget is CPU time of this worker
    crate::fw::CASE_BUDGET_MS.store(600_000, std::sync::atomic::Ordering::SeqCst);
    let dir = drv::scratch_sub(&ctx.scratch.clone(), "t");
    let thorough = ctx.tier == Tier::Thorough;
    let mut texts: Vec<(String, String)> = vec![];
    for (name, t) in seed_texts(if thorough { 80_000 } else { 3500 }) {
        if let Some(a) = with_ascent(&t) {
            texts.push((format!("{} [ascent]", name), a));
        }
        texts.push((name, t));
    }
    // value-building skeleton renderings (both backends)
    let mut k = 0;
    crate::gram::enum_fcfg(if thorough { 6 } else { 5 }, 2, 2, &mut |g| {
        if g.terms >= 1 && g.is_reduced() {
            k += 1;
            if k % 3 == 0 {
                let d = crate::dg::DG::plain(g, crate::dg::Style::Named);
                texts.push((format!("skeleton {}", g.describe()), d.render(Algo::Lane, crate::gram::Codegen::Table)));
                texts.push((format!("skeleton {} [ascent]", g.describe()), d.render(Algo::Lane, crate::gram::Codegen::Ascent)));
            }
        }
    });
    for (i, (name, text)) in texts.iter().enumerate() {
        if !ctx.mine(i as u64) || !ctx.begin_case(i as u64) {
            continue;
        }
        ctx.case_detail(&json!({"origin": name, "text": text}));
        let base = drv::generate_in(&dir, text.as_bytes(), &GenOpts::default());
        if !base.ok {
            ctx.count("seeds_not_accepted_standalone");
            ctx.end_case();
            continue;
        }
        if text.contains("recursive_ascent") {
            ctx.count("ascent_grammars");
        } else {
            ctx.count("table_grammars");
        }
        let base_rs = base.rs.unwrap();
        let base_tok = match rtok(body_after_header(&base_rs)) {
            Ok(t) => t,
            Err(e) => {
                ctx.violation("output-does-not-tokenize", format!("{}: default output is not a Rust token stream: {}", name, e), json!({"origin": name, "text": text}));
                ctx.end_case();
                continue;
            }
        };
        for flags in 1..8u8 {
            let o = GenOpts { emit_comments: flags & 1 != 0, emit_whitespace: flags & 2 == 0, emit_report: flags & 4 != 0, ..Default::default() };
            let out = drv::generate_in(&dir, text.as_bytes(), &o);
            ctx.count("comparisons");
            let case = json!({"origin": name, "text": text, "flags": {"emit_comments": o.emit_comments, "emit_whitespace": o.emit_whitespace, "emit_report": o.emit_report}});
            if !out.ok {
                ctx.violation("flags-change-acceptance", format!("{} with flags {:?}: rejected ({:?})", name, case["flags"], out.panic), case);
                continue;
            }
            let rs = out.rs.unwrap();
            if rs != base_rs {
                ctx.count("textually_different");
            }
            match rtok(body_after_header(&rs)) {
                Ok(t) => {
                    if t != base_tok {
                        ctx.violation("flags-change-token-stream", format!("{} with flags {}: {}", name, case["flags"], first_diff(&base_tok, &t)), case);
                    }
                }
                Err(e) => ctx.violation("output-does-not-tokenize", format!("{} with flags {}: {}", name, case["flags"], e), case),
            }
        }
        if i % 37 == 1 {
            ctx.sample(json!({"origin": name, "tokens_in_output": base_tok.len()}));
        }
        ctx.end_case();
    }
}

// ---------------------------------------------------------------------------------------
// C26

/// tokenizer of c18 plus Rust multi-character operators kept whole
fn gaps(text: &str) -> Vec<(usize, usize)> {
    let toks = c18::tokenize(text);
    // merge adjacent single-char tokens that form a Rust operator
    let ops = ["<>", "..=", "...", "<<=", ">>=", "&&", "||", "<=", ">=", "+=", "-=", "*=", "/=", "%=", "^=", "|=", "&=", "<<", ">>", "..", "->", "!=", "==", "::", "=>"];
    let mut out: Vec<(usize, usize)> = vec![];
    let mut i = 0;
    while i < toks.len() {
        let (s, mut e) = toks[i];
        let mut j = i + 1;
        loop {
            let mut merged = false;
            for op in ops {
                if text[s..].starts_with(op) && s + op.len() > e {
                    // extend to cover the operator if the following tokens are adjacent
                    let target = s + op.len();
                    while j < toks.len() && toks[j].0 < target {
                        e = toks[j].1.max(e);
                        j += 1;
                        merged = true;
                    }
                }
            }
            if !merged {
                break;
            }
        }
        // `Name<` (macro use / generic) is one token of the grammar language
        let is_ident = text[s..e].chars().all(|c| c.is_alphanumeric() || c == '_');
        if is_ident && j < toks.len() && toks[j].0 == e && text[toks[j].0..toks[j].1].starts_with('<') {
            e = toks[j].1;
            j += 1;
        }
        out.push((s, e));
        i = j;
    }
    out
}

fn run_c26(ctx: &mut Ctx) {
    // a case is several generations of one grammar (the larger repository grammars take seconds
    // each under the ascent backend); the budget is CPU time of this worker
    crate::fw::CASE_BUDGET_MS.store(600_000, std::sync::atomic::Ordering::SeqCst);
    let dir = drv::scratch_sub(&ctx.scratch.clone(), "t");
    let thorough = ctx.tier == Tier::Thorough;
    let fillers: Vec<&str> = if thorough { vec![" ", "\n", "\t", " // c\n", " /* c */ ", " /* /* n */ */ ", " /* a/*/b*/c **/ ", " /*/**/*/ "] } else { vec!["\n", " // c\n", " /* /* n */ */ ", " /* a/*/b*/c **/ "] };
    let mut idx = 0u64;
    // (a) layout perturbations
    for (name, text) in seed_texts(if thorough { 4000 } else { 600 }) {
        idx += 1;
        let base = drv::generate_in(&dir, text.as_bytes(), &GenOpts::default());
        if !base.ok {
            continue;
        }
        let base_tok = match rtok(body_after_header(base.rs.as_ref().unwrap())) {
            Ok(t) => t,
            Err(_) => continue,
        };
        let g = gaps(&text);
        let mut variants: Vec<(String, String)> = vec![];
        for f in &fillers {
            // at all gaps at once
            let mut all = String::new();
            let mut last = 0;
            for (s, e) in &g {
                all.push_str(&text[last..*s]);
                all.push_str(f);
                all.push_str(&text[*s..*e]);
                last = *e;
            }
            all.push_str(&text[last..]);
            all.push_str(f);
            variants.push((format!("filler {:?} at all gaps", f), all));
            for (gi, (s, _)) in g.iter().enumerate() {
                variants.push((format!("filler {:?} before token #{}", f, gi), format!("{}{}{}", &text[..*s], f, &text[*s..])));
            }
        }
        // all removable whitespace removed: keep one space only between two word-like tokens
        {
            let mut t = String::new();
            let mut prev_end: Option<usize> = None;
            for (s, e) in &g {
                if let Some(pe) = prev_end {
                    let a = text[..pe].chars().last().unwrap_or(' ');
                    let b = text[*s..].chars().next().unwrap_or(' ');
                    let wordish = |c: char| c.is_alphanumeric() || c == '_' || c == '\'' || c == '"';
                    let had_gap = *s > pe;
                    // a `//` comment between the tokens was dropped by the tokenizer: keep a newline
                    if had_gap && ((wordish(a) && wordish(b)) || (wordish(a) && b == '<') || text[pe..*s].contains("//") || text[pe..*s].contains("/*")) {
                        t.push(if text[pe..*s].contains("//") { '\n' } else { ' ' });
                    } else if had_gap && !(wordish(a) || wordish(b)) {
                        // two punctuation tokens that were separated stay separated
                        t.push(' ');
                    }
                }
                t.push_str(&text[*s..*e]);
                prev_end = Some(*e);
            }
            variants.push(("whitespace minimised".into(), t));
        }
        for (vi, (what, t)) in variants.iter().enumerate() {
            idx += 1;
            if !ctx.mine(idx) || !ctx.begin_case(idx) {
                continue;
            }
            ctx.count("texts");
            ctx.count("gap_insertions");
            ctx.case_detail(&json!({"origin": name, "what": what, "text": t}));
            let out = drv::generate_in(&dir, t.as_bytes(), &GenOpts::default());
            let case = json!({"origin": name, "what": what, "text": t, "original": text});
            if let Some(p) = &out.panic {
                ctx.violation("generator-panic", format!("{} ({}): {}", name, what, p), case);
            } else if !out.ok {
                ctx.violation("layout-changes-acceptance", format!("{} ({}): rejected: {}", name, what, out.diag.lines().next().unwrap_or("")), case);
            } else {
                ctx.count("accepted_perturbations");
                match rtok(body_after_header(out.rs.as_ref().unwrap())) {
                    Ok(tk) => {
                        if tk != base_tok {
                            ctx.violation("layout-changes-output", format!("{} ({}): {}", name, what, first_diff(&base_tok, &tk)), case);
                        }
                    }
                    Err(e) => ctx.violation("output-does-not-tokenize", format!("{} ({}): {}", name, what, e), case),
                }
            }
            if vi == 3 && ctx.p.samples.len() < 2 {
                ctx.sample(json!({"origin": name, "what": what}));
            }
            ctx.end_case();
        }
    }
    // (b) embedded Rust
    let leaf: Vec<&str> = vec!["\"}\"", "\"\\\"\"", "r\"\\\"", "r#\"\"\"#", "'}'", "'\\''", "'\"'", "b'{'", "\"(\"", "'['", "1", "x", "/* , */", "// ;\n", "r#\"}\"#", "\"\\\\\"", "\"a\n    b\"", "r\"x\n y\""];
    let n_atoms = if thorough { 3 } else { 2 };
    // sequences of leaves joined by commas, wrapped in each delimiter kind
    let mut seqs: Vec<Vec<&str>> = vec![vec![]];
    let mut layer: Vec<Vec<&str>> = vec![vec![]];
    for _ in 0..n_atoms {
        let mut nl = vec![];
        for s in &layer {
            for l in &leaf {
                let mut x = s.clone();
                x.push(*l);
                nl.push(x);
            }
        }
        seqs.extend(nl.iter().cloned());
        layer = nl;
    }
    let wrappers = [("(", ")"), ("[", "]"), ("{ (", ") }"), ("((", "))"), ("vec![", "]")];
    let placeholder_text = |body: &str| format!("grammar;\npub S: () = \"a\" => {{ let _v = {}; }};\n", body);
    let ph = drv::generate_in(&dir, placeholder_text("PLACEHOLDER_IDENT").as_bytes(), &GenOpts::default());
    let ph_tok = ph.rs.as_ref().and_then(|r| rtok(body_after_header(r)).ok());
    let Some(ph_tok) = ph_tok else {
        ctx.machinery("placeholder grammar failed".to_string());
        return;
    };
    for seq in &seqs {
        for (wi, (o, c)) in wrappers.iter().enumerate() {
            idx += 1;
            if !ctx.mine(idx) {
                continue;
            }
            // comments as elements are not separated by commas
            let mut body = String::from(*o);
            let mut first = true;
            for a in seq {
                let is_comment = a.starts_with("/*") || a.starts_with("//");
                if !first && !is_comment {
                    body.push_str(", ");
                }
                body.push_str(a);
                if !is_comment {
                    first = false;
                } else {
                    body.push(' ');
                }
            }
            body.push_str(c);
            if !ctx.begin_case(idx) {
                continue;
            }
            ctx.count("texts");
            ctx.count("snippets");
            if body.contains("r\"") || body.contains("r#") {
                ctx.count("snippets_with_raw_string");
            }
            if body.contains('\'') {
                ctx.count("snippets_with_char_literal");
            }
            let text = placeholder_text(&body);
            ctx.case_detail(&json!({"snippet": body, "text": text}));
            let out = drv::generate_in(&dir, text.as_bytes(), &GenOpts::default());
            let case = json!({"snippet": body, "text": text});
            // the snippet is valid Rust by construction?
            let snip_tok = match rtok(&body) {
                Ok(t) => t,
                Err(e) => {
                    ctx.machinery(format!("harness snippet is not a Rust token stream: {} ({})", body, e));
                    ctx.end_case();
                    continue;
                }
            };
            if let Some(p) = &out.panic {
                ctx.violation("generator-panic", format!("snippet `{}`: {}", body, p), case);
            } else if !out.ok {
                let class = if body.contains("r\"") { "raw-string-without-hash-rejected" } else { "valid-rust-snippet-rejected" };
                ctx.violation(class, format!("action code `{}` is balanced Rust but the grammar is rejected: {}", body, out.diag.lines().next().unwrap_or("")), case);
            } else {
                ctx.count("accepted_perturbations");
                let got = rtok(body_after_header(out.rs.as_ref().unwrap()));
                let mut want = vec![];
                for t in &ph_tok {
                    if t == "PLACEHOLDER_IDENT" {
                        want.extend(snip_tok.iter().cloned());
                    } else {
                        want.push(t.clone());
                    }
                }
                match got {
                    Ok(g) => {
                        if g != want {
                            ctx.violation("rust-not-transferred-verbatim", format!("snippet `{}`: {}", body, first_diff(&want, &g)), case);
                        }
                    }
                    Err(e) => ctx.violation("output-does-not-tokenize", format!("snippet `{}`: {}", body, e), case),
                }
            }
            let _ = wi;
            ctx.end_case();
        }
    }
    // other positions: use item, type annotation, module attribute, lifetimes
    if ctx.shard == 0 {
        let others: Vec<(&str, String, Vec<&str>)> = vec![
            ("use item", "use std::collections::{HashMap as M, /* ; */ BTreeMap};\ngrammar;\npub S: () = \"a\" => ();\n".to_string(), vec!["use std :: collections :: { HashMap as M , BTreeMap } ;"]),
            ("type annotation with lifetime", "grammar<'s>(t: &'s str);\npub S: (&'s str, &'static [u8], Option<Vec<&'s str>>) = \"a\" => (t, b\"}{\", None);\n".to_string(), vec!["( & 's str , & 'static [ u8 ] , Option < Vec < & 's str > > )", "( t , b\"}{\" , None )"]),
            ("module attribute", "#![allow(dead_code, clippy::all)]\n#![doc = \"}]\"]\ngrammar;\npub S: () = \"a\" => ();\n".to_string(), vec!["# ! [ allow ( dead_code , clippy :: all ) ]", "# ! [ doc = \"}]\" ]"]),
            ("char literals and lifetimes in code", "grammar;\npub S: (char, char, char) = \"a\" => { fn f<'x>(c: &'x char) -> &'x char { c } (*f(&'}'), '\\'', '\"') };\n".to_string(), vec!["( * f ( & '}' ) , '\\'' , '\"' )"]),
        ];
        for (k, (what, text, must)) in others.into_iter().enumerate() {
            if !ctx.begin_case(u64::MAX / 8 + k as u64) {
                continue;
            }
            ctx.count("texts");
            let out = drv::generate_in(&dir, text.as_bytes(), &GenOpts::default());
            let case = json!({"what": what, "text": text});
            if !out.ok {
                ctx.violation("valid-rust-snippet-rejected", format!("{}: rejected: {:?} {}", what, out.panic, out.diag.lines().next().unwrap_or("")), case);
            } else {
                let got = rtok(out.rs.as_ref().unwrap()).map(|v| v.join(" ").replace('~', "")).unwrap_or_default();
                let norm = |s: &str| rtok(s).map(|v| v.join(" ").replace('~', "")).unwrap_or_default();
                for m in must {
                    if !got.contains(&norm(m)) {
                        ctx.violation("rust-not-transferred-verbatim", format!("{}: generated module lacks the tokens `{}`", what, m), case.clone());
                    }
                }
            }
            ctx.end_case();
        }
    }
}

// ---------------------------------------------------------------------------------------
// C15

#[derive(Clone, Debug)]
enum Pred {
    Feat(&'static str),
    Not(Box<Pred>),
    All(Vec<Pred>),
    Any(Vec<Pred>),
}
impl Pred {
    fn render(&self) -> String {
        match self {
            Pred::Feat(f) => format!("feature = \"{}\"", f),
            Pred::Not(p) => format!("not({})", p.render()),
            Pred::All(v) => format!("all({})", v.iter().map(|p| p.render()).collect::<Vec<_>>().join(", ")),
            Pred::Any(v) => format!("any({})", v.iter().map(|p| p.render()).collect::<Vec<_>>().join(", ")),
        }
    }
    fn eval(&self, fs: &[&str]) -> bool {
        match self {
            Pred::Feat(f) => fs.contains(f),
            Pred::Not(p) => !p.eval(fs),
            Pred::All(v) => v.iter().all(|p| p.eval(fs)),
            Pred::Any(v) => v.iter().any(|p| p.eval(fs)),
        }
    }
}

fn preds() -> Vec<Pred> {
    let atoms = vec![Pred::Feat("f"), Pred::Feat("g"), Pred::Feat("foo-bar")];
    let mut d1: Vec<Pred> = atoms.clone();
    // (LALRPOP rejects `all()` / `any()` without arguments with a diagnostic: no parser is
    // generated, so they are outside the statement; the always-true predicate below is all(f|not f))
    for a in &atoms {
        d1.push(Pred::Not(Box::new(a.clone())));
        d1.push(Pred::All(vec![a.clone()]));
        d1.push(Pred::Any(vec![a.clone()]));
    }
    d1.push(Pred::All(vec![atoms[0].clone(), atoms[1].clone()]));
    d1.push(Pred::Any(vec![atoms[0].clone(), atoms[1].clone()]));
    let mut out = d1.clone();
    // depth 2: not / all / any over depth-1 trees (a selection of arities)
    for p in &d1[3..] {
        out.push(Pred::Not(Box::new(p.clone())));
        out.push(Pred::All(vec![p.clone(), atoms[2].clone()]));
        out.push(Pred::Any(vec![atoms[1].clone(), p.clone()]));
    }
    out
}

/// slots: 0 = nonterminal A (twin has not(P)), 1 = alternative "b", 2,3 = two cfgs on one
/// alternative, 4 = first conversion of "b", 5 = second conversion of "b"
fn c15_text(p: &[Option<&Pred>; 6], fs: Option<&[&str]>) -> String {
    // fs = None: render with attributes; Some(fs): render with inactive declarations deleted
    // (and the attributes of the kept ones removed as well)
    let keep = |q: &Option<&Pred>| -> bool {
        match (q, fs) {
            (Some(q), Some(fs)) => q.eval(fs),
            _ => true,
        }
    };
    let attr = |q: &Option<&Pred>| -> String {
        match (q, fs) {
            (Some(q), None) => format!("#[cfg({})] ", q.render()),
            _ => String::new(),
        }
    };
    let mut s = String::from("use super::Tok;\ngrammar;\nextern {\n    type Location = usize;\n    type Error = String;\n    enum Tok {\n        \"a\" => Tok::T0,\n");
    if keep(&p[4]) {
        s.push_str(&format!("        {}\"b\" => Tok::T1,\n", attr(&p[4])));
    }
    if keep(&p[5]) {
        s.push_str(&format!("        {}\"b\" => Tok::T2,\n", attr(&p[5])));
    }
    s.push_str("    }\n}\npub S: () = {\n    \"a\" A => (),\n");
    if keep(&p[1]) {
        s.push_str(&format!("    {}\"b\" => (),\n", attr(&p[1])));
    }
    if keep(&p[2]) && keep(&p[3]) {
        s.push_str(&format!("    {}{}\"a\" \"a\" \"a\" => (),\n", attr(&p[2]), attr(&p[3])));
    }
    s.push_str("};\n");
    // nonterminal A and its complement twin
    match (p[0], fs) {
        (Some(q), None) => {
            s.push_str(&format!("#[cfg({})]\nA: () = \"a\" => ();\n#[cfg(not({}))]\nA: () = \"a\" \"b\" => ();\n", q.render(), q.render()));
        }
        (Some(q), Some(fs)) => {
            if q.eval(fs) {
                s.push_str("A: () = \"a\" => ();\n");
            } else {
                s.push_str("A: () = \"a\" \"b\" => ();\n");
            }
        }
        (None, _) => s.push_str("A: () = \"a\" => ();\n"),
    }
    s
}

fn run_c15(ctx: &mut Ctx) {
    // a case is several generations of one grammar (the larger repository grammars take seconds
    // each under the ascent backend); the budget is CPU time of this worker
    crate::fw::CASE_BUDGET_MS.store(600_000, std::sync::atomic::Ordering::SeqCst);
    let dir = drv::scratch_sub(&ctx.scratch.clone(), "t");
    let ps = preds();
    let feature_sets: Vec<Vec<&str>> = (0..8u8).map(|m| ["f", "g", "foo-bar"].iter().enumerate().filter(|(i, _)| m & (1 << i) != 0).map(|(_, f)| *f).collect()).collect();
    let t = Pred::Any(vec![Pred::Feat("f"), Pred::Not(Box::new(Pred::Feat("f")))]);
    let nf = Pred::Not(Box::new(Pred::Feat("f")));
    let ff = Pred::Feat("f");
    // default slot assignment: conversions f / not(f), others always-true
    let mut layouts: Vec<[Option<&Pred>; 6]> = vec![];
    for p in &ps {
        layouts.push([Some(p), Some(&t), None, None, Some(&ff), Some(&nf)]);
        layouts.push([None, Some(p), None, None, Some(&ff), Some(&nf)]);
        layouts.push([None, None, None, None, Some(p), Some(&nf)]);
        layouts.push([None, None, None, None, Some(&ff), Some(p)]);
        layouts.push([None, None, Some(p), None, Some(&ff), Some(&nf)]);
    }
    for p in ps.iter().step_by(2) {
        for q in ps.iter().step_by(3) {
            layouts.push([None, None, Some(p), Some(q), Some(&ff), Some(&nf)]);
        }
    }
    ctx.note("layouts", json!(layouts.len()));
    for (li, lay) in layouts.iter().enumerate() {
        if !ctx.mine(li as u64) || !ctx.begin_case(li as u64) {
            continue;
        }
        let text = c15_text(lay, None);
        ctx.case_detail(&json!({"text": text}));
        for fs in &feature_sets {
            let deleted = c15_text(lay, Some(fs));
            let a = drv::generate_in(&dir, text.as_bytes(), &GenOpts { features: Some(fs.iter().map(|s| s.to_string()).collect()), ..Default::default() });
            let b = drv::generate_in(&dir, deleted.as_bytes(), &GenOpts { features: Some(vec![]), ..Default::default() });
            ctx.count("comparisons");
            let n_deleted = lay.iter().filter(|q| q.map(|q| !q.eval(fs)).unwrap_or(false)).count();
            let n_kept = lay.iter().filter(|q| q.map(|q| q.eval(fs)).unwrap_or(false)).count();
            if n_deleted > 0 && n_kept > 0 {
                ctx.count("mixed_comparisons");
            }
            let case = json!({"text": text, "features": fs, "deleted_text": deleted});
            judge_c15(ctx, &a, &b, case, "set_features");
        }
        if li % 41 == 2 {
            ctx.sample(json!({"grammar": text, "feature_sets": feature_sets.len()}));
        }
        ctx.end_case();
    }
    // via CARGO_FEATURE_* and process_dir (process-global environment: single worker)
    if ctx.shard == 0 {
        for (li, lay) in layouts.iter().enumerate().step_by(7) {
            for fs in &feature_sets {
                if !ctx.begin_case(u64::MAX / 16 + li as u64) {
                    continue;
                }
                let text = c15_text(lay, None);
                let deleted = c15_text(lay, Some(fs));
                let d = dir.join("envdir");
                let _ = std::fs::remove_dir_all(&d);
                std::fs::create_dir_all(d.join("in")).unwrap();
                std::fs::create_dir_all(d.join("out")).unwrap();
                std::fs::write(d.join("in/g.lalrpop"), &text).unwrap();
                for f in ["F", "G", "FOO_BAR"] {
                    unsafe { std::env::remove_var(format!("CARGO_FEATURE_{}", f)) };
                }
                for f in fs {
                    unsafe { std::env::set_var(format!("CARGO_FEATURE_{}", f.to_uppercase().replace('-', "_")), "1") };
                }
                let mut c = lalrpop::Configuration::new();
                c.never_use_colors().log_quiet().force_build(true).set_out_dir(d.join("out"));
                let cap = d.join("cap.txt");
                let (res, diag) = drv::capture(&cap, || std::panic::catch_unwind(std::panic::AssertUnwindSafe(|| c.process_dir(d.join("in")).map_err(|e| e.to_string()))));
                for f in ["F", "G", "FOO_BAR"] {
                    unsafe { std::env::remove_var(format!("CARGO_FEATURE_{}", f)) };
                }
                let ok = matches!(res, Ok(Ok(())));
                let a = drv::GenOut { ok, rs: std::fs::read_to_string(d.join("out/g.rs")).ok(), diag, err: None, panic: if res.is_err() { drv::take_last_panic() } else { None } };
                let b = drv::generate_in(&dir, deleted.as_bytes(), &GenOpts { features: Some(vec![]), ..Default::default() });
                ctx.count("comparisons");
                ctx.count("via_env");
                judge_c15(ctx, &a, &b, json!({"text": text, "features": fs, "deleted_text": deleted, "via": "CARGO_FEATURE_*"}), "CARGO_FEATURE");
                ctx.end_case();
            }
        }
    }
}

fn judge_c15(ctx: &mut Ctx, a: &drv::GenOut, b: &drv::GenOut, case: serde_json::Value, how: &str) {
    if a.panic.is_some() || b.panic.is_some() {
        ctx.violation("generator-panic", format!("{}: {:?} / {:?}", how, a.panic, b.panic), case);
        return;
    }
    match (a.ok, b.ok) {
        (true, true) => {
            ctx.count("both_ok");
            let ta = rtok(body_after_header(a.rs.as_ref().unwrap()));
            let tb = rtok(body_after_header(b.rs.as_ref().unwrap()));
            match (ta, tb) {
                (Ok(x), Ok(y)) => {
                    if x != y {
                        ctx.violation("cfg-differs-from-deletion", format!("{} features {}: {}", how, case["features"], first_diff(&y, &x)), case);
                    }
                }
                _ => ctx.machinery("generated output does not tokenize".to_string()),
            }
        }
        (false, false) => ctx.count("both_fail"),
        (x, _) => {
            let class = if x { "cfg-accepts-what-deletion-rejects" } else { "cfg-rejects-what-deletion-accepts" };
            ctx.violation(class, format!("{} features {}: with cfg ok={}, with deletion ok={}; {} / {}", how, case["features"], a.ok, b.ok, a.diag.lines().next().unwrap_or(""), b.diag.lines().next().unwrap_or("")), case);
        }
    }
}
