use crate::fw::CheckDef;
pub mod c03;
pub mod core;
pub mod lexchk;
pub mod textchk;
pub mod valsem;
pub mod c12;
pub mod c13;
pub mod c18;
pub mod c19;
pub mod c20;
pub mod c21;
pub mod c22;
pub mod c23;
pub mod c25;
pub mod c27;
pub mod c28;

pub fn registry() -> Vec<CheckDef> {
    let mut v = vec![];
    v.push(c03::def());
    v.extend(core::defs());
    v.extend(valsem::defs());
    v.extend(lexchk::defs());
    v.extend(textchk::defs());
    v.push(c12::def());
    v.push(c13::def());
    v.push(c18::def());
    v.push(c19::def());
    v.push(c20::def());
    v.push(c21::def());
    v.push(c22::def());
    v.push(c23::def());
    v.push(c25::def());
    v.push(c27::def());
    v.push(c28::def());
    v
}

pub fn textchk_seed_texts(max: usize) -> Vec<(String, String)> {
    textchk::seed_texts(max)
}
