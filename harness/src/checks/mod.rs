use crate::fw::CheckDef;
pub mod c03;
pub mod core;
pub mod valsem;
pub mod c28;

pub fn registry() -> Vec<CheckDef> {
    let mut v = vec![];
    v.push(c03::def());
    v.extend(core::defs());
    v.extend(valsem::defs());
    v.push(c28::def());
    v
}
