//! C12: precedence / associativity annotations yield the documented tiered grammar.
//!
//! Family F-prec: one annotated nonterminal `E` (wrapped by `pub S = E`, an external reference)
//! with 2..k alternatives drawn from operator shapes, every layout of `#[precedence]` /
//! `#[assoc]` attributes (present/absent, levels in any order, non-consecutive).
//! Oracle: the harness computes each alternative's effective (level, assoc) by the documented
//! inheritance rules and builds the tiered CFG itself (never calling LALRPOP's expander):
//!  (i)   LALRPOP accepts the annotated grammar  <=>  it accepts the hand-tiered text;
//!  (ii)  on the table model (tables lifted from the generated parser, run by the real driver),
//!        for every token sequence <= n (extensions of non-viable prefixes pruned): Ok <=> member
//!        of the tiered CFG's language, and the derivation tree (unit chains collapsed) equals
//!        the unique tree of the tiered CFG;
//!  (iii) on compiled parsers (both backends) of a sub-corpus: the value built by the user
//!        actions equals the tree mapped back to source alternatives.

use crate::dg;
use crate::drv::{self, GenOpts};
use crate::fw::{CheckDef, Ctx, Tier};
use crate::gram::{Algo, Cfg, Codegen, Sym, TNAMES};
use crate::implr;
use crate::implt::{self, Outcome, TNode};
use crate::lang::{self, Lang, Tree};
use crate::lift;
use crate::obs::Obs;
use serde::{Deserialize, Serialize};
use serde_json::json;
use std::collections::{HashMap, HashSet};
use std::fmt::Write;

pub fn def() -> CheckDef {
    CheckDef {
        id: "C12",
        level: "exploration",
        rule: "F-prec: annotated nonterminal E with 2..k alternatives (quick k<=3, thorough k<=4) over shapes {atom, prefix, postfix, binary, ternary, parenthesised, E (op E)? with a nested recursive occurrence} x every attribute layout (precedence absent or one of three level numbers in any order, assoc absent/left/right/none/all), referenced from `pub S = E`. Oracle: tiered CFG built by the harness from the documented inheritance rules; LALRPOP's verdict on the annotated text must equal its verdict on the hand-tiered text; for accepted grammars the tables lifted from the generated parser are run by the real lalrpop_util driver on every token sequence <= n (non-viable prefixes are not extended) and acceptance and the derivation tree (unit chains collapsed) must equal membership and the unique tree of the tiered CFG; a sub-corpus is compiled with value-building actions under both code generators and its values must equal the tree mapped back to source alternatives. evaluations = model parses + compiled parses; distinct_nontrivial = accepted (grammar, input) pairs whose tree has >= 2 operator nodes",
        evaluations: "parses",
        nontrivial: "accepted_multi_operator",
        mc: None,
        require: &["parses", "accepted_multi_operator", "grammars_accepted", "grammars_rejected_both", "distinct_table_sets", "implr_parses", "assoc_left", "assoc_right", "assoc_none", "inherited_level", "inherited_assoc"],
        exhaustive: true,
        assumptions: &["the tiered CFG built in harness/src/checks/c12.rs transcribes the documented rules (lower level binds tighter; left/right/none/all substitution of recursive occurrences; inheritance of level and associativity; a new precedence resets associativity to all; external references denote the loosest level)", "annotated grammars whose generated tables are identical to an already explored grammar with the same tiered CFG are not re-run (same tables, same driver => same behaviour)", "grammars with an explicit assoc attribute on the first level are rejected by LALRPOP with a diagnostic and are outside the statement"],
        shards: 0,
        run,
        crash_class: Some("generator"),
    }
}

#[derive(Clone, Copy, PartialEq, Eq, Hash, Debug, Serialize, Deserialize, PartialOrd, Ord)]
pub enum Shape {
    Atom,
    Prefix,
    Postfix,
    Binary,
    Ternary,
    Paren,
    OptTail,
}
impl Shape {
    fn nterms(self) -> usize {
        match self {
            Shape::Ternary | Shape::Paren => 2,
            _ => 1,
        }
    }
    fn occurrences(self) -> usize {
        match self {
            Shape::Atom => 0,
            Shape::Prefix | Shape::Postfix | Shape::Paren => 1,
            Shape::Binary | Shape::OptTail => 2,
            Shape::Ternary => 3,
        }
    }
}

#[derive(Clone, Copy, PartialEq, Eq, Hash, Debug, Serialize, Deserialize)]
pub enum Assoc {
    Left,
    Right,
    NonAssoc,
    All,
}
impl Assoc {
    fn text(self) -> &'static str {
        match self {
            Assoc::Left => "left",
            Assoc::Right => "right",
            Assoc::NonAssoc => "none",
            Assoc::All => "all",
        }
    }
}

#[derive(Clone, PartialEq, Eq, Hash, Debug, Serialize, Deserialize)]
pub struct PAlt {
    pub shape: Shape,
    pub prec: Option<u32>,
    pub assoc: Option<Assoc>,
}

#[derive(Clone, PartialEq, Eq, Hash, Debug, Serialize, Deserialize)]
pub struct PG {
    pub alts: Vec<PAlt>,
}

/// what the documented rules say about an annotated nonterminal
pub struct Tiered {
    /// distinct levels, ascending
    pub levels: Vec<u32>,
    /// per source alternative: (level index, effective assoc)
    pub eff: Vec<(usize, Assoc)>,
    /// per source alternative, per recursive occurrence: level index it refers to
    pub occ: Vec<Vec<usize>>,
    /// CFG: nonterminal 0 = S, 1 + li = level li, then helpers
    pub cfg: Cfg,
    /// (nt, alternative index) -> source alternative (None: chain / helper production)
    pub src: HashMap<(usize, usize), usize>,
    pub inherited_level: bool,
    pub inherited_assoc: bool,
}

impl PG {
    /// first terminal index of each alternative
    fn term_base(&self) -> Vec<u8> {
        let mut b = vec![];
        let mut t = 0u8;
        for a in &self.alts {
            b.push(t);
            t += a.shape.nterms() as u8;
        }
        b
    }
    pub fn nterms(&self) -> usize {
        self.alts.iter().map(|a| a.shape.nterms()).sum()
    }

    /// None: an associativity other than `all` would be needed below the first level
    pub fn tiered(&self) -> Option<Tiered> {
        let mut last: (u32, Assoc) = (0, Assoc::All);
        let mut effl: Vec<(u32, Assoc)> = vec![];
        let (mut inh_l, mut inh_a) = (false, false);
        for a in &self.alts {
            let (lvl, base) = match a.prec {
                Some(l) => (l, Assoc::All),
                None => {
                    inh_l = true;
                    (last.0, last.1)
                }
            };
            let assoc = match a.assoc {
                Some(x) => x,
                None => {
                    if a.prec.is_none() && base != Assoc::All {
                        inh_a = true;
                    }
                    base
                }
            };
            last = (lvl, assoc);
            effl.push(last);
        }
        let mut levels: Vec<u32> = effl.iter().map(|x| x.0).collect();
        levels.sort();
        levels.dedup();
        let li_of = |l: u32| levels.iter().position(|x| *x == l).unwrap();
        let eff: Vec<(usize, Assoc)> = effl.iter().map(|(l, a)| (li_of(*l), *a)).collect();
        let mut occ = vec![];
        for (a, (li, assoc)) in self.alts.iter().zip(eff.iter()) {
            let k = a.shape.occurrences();
            let mut o = vec![];
            for i in 0..k {
                let cur = match assoc {
                    Assoc::All => true,
                    Assoc::NonAssoc => false,
                    Assoc::Left => i == 0,
                    Assoc::Right => i == k - 1,
                };
                if cur {
                    o.push(*li);
                } else {
                    if *li == 0 {
                        return None;
                    }
                    o.push(*li - 1);
                }
            }
            // an associativity on the first level has no previous level to refer to, even when
            // the alternative has no recursive occurrence
            if *li == 0 && *assoc != Assoc::All {
                return None;
            }
            occ.push(o);
        }
        // CFG
        let nl = levels.len();
        let base = self.term_base();
        let mut alts: Vec<Vec<Vec<Sym>>> = vec![vec![]; 1 + nl];
        let mut src = HashMap::new();
        alts[0].push(vec![Sym::N(nl as u8)]);
        for li in 0..nl {
            for (ai, a) in self.alts.iter().enumerate() {
                if eff[ai].0 != li {
                    continue;
                }
                let t = |k: u8| Sym::T(base[ai] + k);
                let e = |k: usize| Sym::N(1 + occ[ai][k] as u8);
                let rhs = match a.shape {
                    Shape::Atom => vec![t(0)],
                    Shape::Prefix => vec![t(0), e(0)],
                    Shape::Postfix => vec![e(0), t(0)],
                    Shape::Binary => vec![e(0), t(0), e(1)],
                    Shape::Ternary => vec![e(0), t(0), e(1), t(1), e(2)],
                    Shape::Paren => vec![t(0), e(0), t(1)],
                    Shape::OptTail => {
                        // E (op E)?  =  E Opt ; Opt = eps | Grp ; Grp = op E
                        let opt = alts.len();
                        alts.push(vec![vec![], vec![Sym::N(opt as u8 + 1)]]);
                        alts.push(vec![vec![t(0), e(1)]]);
                        vec![e(0), Sym::N(opt as u8)]
                    }
                };
                src.insert((1 + li, alts[1 + li].len()), ai);
                alts[1 + li].push(rhs);
            }
            if li > 0 {
                alts[1 + li].push(vec![Sym::N(li as u8)]);
            }
        }
        let cfg = Cfg { nts: alts.len(), terms: self.nterms(), alts, pubs: vec![0] };
        Some(Tiered { levels, eff, occ, cfg, src, inherited_level: inh_l, inherited_assoc: inh_a })
    }

    fn alt_body(&self, ai: usize, names: &[String], values: bool) -> String {
        let base = self.term_base()[ai];
        let t = |k: u8| format!("\"{}\"", TNAMES[(base + k) as usize]);
        let e = |k: usize| if values { format!("<v{}:{}>", k, names[k]) } else { names[k].clone() };
        match self.alts[ai].shape {
            Shape::Atom => t(0),
            Shape::Prefix => format!("{} {}", t(0), e(0)),
            Shape::Postfix => format!("{} {}", e(0), t(0)),
            Shape::Binary => format!("{} {} {}", e(0), t(0), e(1)),
            Shape::Ternary => format!("{} {} {} {} {}", e(0), t(0), e(1), t(1), e(2)),
            Shape::Paren => format!("{} {} {}", t(0), e(0), t(1)),
            Shape::OptTail => {
                if values {
                    format!("<v0:{}> <v1:({} <{}>)?>", names[0], t(0), names[1])
                } else {
                    format!("{} ({} {})?", names[0], t(0), names[1])
                }
            }
        }
    }

    fn action(&self, ai: usize, values: bool) -> String {
        if !values {
            return "()".to_string();
        }
        match self.alts[ai].shape {
            Shape::OptTail => format!("{{ let mut c = vec![v0]; if let Some(x) = v1 {{ c.push(x); }} V::n({}, c) }}", ai),
            s => format!("V::n({}, vec![{}])", ai, (0..s.occurrences()).map(|k| format!("v{}", k)).collect::<Vec<_>>().join(", ")),
        }
    }

    fn header(&self, values: bool, cg: Codegen) -> String {
        let mut s = String::new();
        s.push_str(if values { "use super::{Tok, V};\n" } else { "use super::Tok;\n" });
        if cg == Codegen::Ascent {
            s.push_str("#[recursive_ascent]\n");
        }
        s.push_str("grammar;\n");
        s.push_str(&crate::gram::extern_block(self.nterms()));
        s
    }

    /// the annotated grammar as a user would write it
    pub fn render_annotated(&self, values: bool, cg: Codegen) -> String {
        let ty = if values { "V" } else { "()" };
        let mut s = self.header(values, cg);
        let _ = writeln!(s, "pub S: {} = {{ <E> }};", ty);
        let _ = writeln!(s, "E: {} = {{", ty);
        for (ai, a) in self.alts.iter().enumerate() {
            if let Some(l) = a.prec {
                let _ = writeln!(s, "    #[precedence(level=\"{}\")]", l);
            }
            if let Some(x) = a.assoc {
                let _ = writeln!(s, "    #[assoc(side=\"{}\")]", x.text());
            }
            let names = vec!["E".to_string(); a.shape.occurrences()];
            let _ = writeln!(s, "    {} => {},", self.alt_body(ai, &names, values), self.action(ai, values));
        }
        s.push_str("};\n");
        s
    }

    /// the tiered grammar written out by hand (same nonterminal names and order as documented)
    pub fn render_tiered(&self, t: &Tiered, values: bool, cg: Codegen) -> String {
        let ty = if values { "V" } else { "()" };
        let nl = t.levels.len();
        let name = |li: usize| if li == nl - 1 { "E".to_string() } else { format!("E{}", t.levels[li]) };
        let mut s = self.header(values, cg);
        let _ = writeln!(s, "pub S: {} = {{ <E> }};", ty);
        for li in 0..nl {
            let _ = writeln!(s, "{}: {} = {{", name(li), ty);
            for (ai, a) in self.alts.iter().enumerate() {
                if t.eff[ai].0 != li {
                    continue;
                }
                let names: Vec<String> = (0..a.shape.occurrences()).map(|k| name(t.occ[ai][k])).collect();
                let _ = writeln!(s, "    {} => {},", self.alt_body(ai, &names, values), self.action(ai, values));
            }
            if li > 0 {
                let _ = writeln!(s, "    {},", name(li - 1));
            }
            s.push_str("};\n");
        }
        s
    }

    pub fn describe(&self) -> String {
        self.alts.iter().map(|a| format!("{:?}[{}{}]", a.shape, a.prec.map(|l| format!("p{}", l)).unwrap_or_default(), a.assoc.map(|x| format!(" {}", x.text())).unwrap_or_default())).collect::<Vec<_>>().join(" | ")
    }
}

// ---------------------------------------------------------------------------------------
// canonical trees: unit chains collapsed, leaves = terminal kinds

#[derive(Clone, PartialEq, Eq, Debug)]
enum CT {
    Leaf(usize),
    Node(Vec<CT>),
}
impl CT {
    fn show(&self) -> String {
        match self {
            CT::Leaf(k) => TNAMES[*k].to_string(),
            CT::Node(c) => format!("({})", c.iter().map(|x| x.show()).collect::<Vec<_>>().join(" ")),
        }
    }
    /// number of nodes with at least one leaf child and one node child (operator applications)
    fn operators(&self) -> usize {
        match self {
            CT::Leaf(_) => 0,
            CT::Node(c) => (if c.iter().any(|x| matches!(x, CT::Node(_))) && c.iter().any(|x| matches!(x, CT::Leaf(_))) { 1 } else { 0 }) + c.iter().map(|x| x.operators()).sum::<usize>(),
        }
    }
}
fn collapse(c: Vec<CT>) -> CT {
    if c.len() == 1 && matches!(c[0], CT::Node(_)) { c.into_iter().next().unwrap() } else { CT::Node(c) }
}
fn ct_of_tnode(t: &TNode) -> CT {
    match t {
        TNode::Tok { kind, .. } => CT::Leaf(*kind),
        TNode::Nt { children, .. } => collapse(children.iter().map(ct_of_tnode).collect()),
        TNode::Error { .. } => CT::Node(vec![]),
    }
}
fn ct_of_tree(t: &Tree) -> CT {
    match t {
        Tree::Tok(k, _) => CT::Leaf(*k as usize),
        Tree::Node(_, _, c) => collapse(c.iter().map(ct_of_tree).collect()),
    }
}

/// expected value string of the user actions: source alternative ids, chains passed through
fn value_of_tree(t: &Tree, tr: &Tiered) -> Option<String> {
    match t {
        Tree::Tok(..) => None,
        Tree::Node(nt, ai, c) => {
            let kids: Vec<String> = c.iter().filter_map(|x| value_of_tree(x, tr)).collect();
            match tr.src.get(&(*nt, *ai)) {
                Some(id) => Some(format!("({}{})", id, kids.iter().map(|k| format!(" {}", k)).collect::<String>())),
                // S, chain, Opt, Grp: pass the single value through (Opt -> eps yields nothing)
                None => kids.into_iter().next(),
            }
        }
    }
}

// ---------------------------------------------------------------------------------------
// the family

fn shape_seqs(k: usize, thorough: bool, f: &mut dyn FnMut(&[Shape])) {
    let all = [Shape::Atom, Shape::Prefix, Shape::Postfix, Shape::Binary, Shape::Ternary, Shape::Paren, Shape::OptTail];
    let mut cur: Vec<Shape> = vec![];
    fn rec(k: usize, all: &[Shape], thorough: bool, cur: &mut Vec<Shape>, f: &mut dyn FnMut(&[Shape])) {
        if cur.len() == k {
            let atoms = cur.iter().filter(|s| **s == Shape::Atom).count();
            let terms: usize = cur.iter().map(|s| s.nterms()).sum();
            if atoms == 1 && terms <= 8 {
                f(cur);
            }
            return;
        }
        for s in all {
            let n = cur.iter().filter(|x| *x == s).count();
            let max = match s {
                Shape::Binary => 2,
                Shape::Prefix | Shape::Postfix if thorough => 2,
                _ => 1,
            };
            if n >= max {
                continue;
            }
            cur.push(*s);
            rec(k, all, thorough, cur, f);
            cur.pop();
        }
    }
    rec(k, &all, thorough, &mut cur, f);
}

/// every attribute layout for a shape sequence; level numbers {1, 3, 7} (non-consecutive),
/// used in canonical form only: a layout whose set of used numbers is not a prefix-closed
/// choice ({1}, {1,3}, {1,3,7} in any order of appearance) is a renumbering of another one
/// and is skipped, except that one non-canonical numbering per shape sequence is kept so that
/// the numbering itself is exercised.
fn layouts(shapes: &[Shape], f: &mut dyn FnMut(PG)) {
    let k = shapes.len();
    let precs: [Option<u32>; 4] = [None, Some(1), Some(3), Some(7)];
    let assocs: [Option<Assoc>; 5] = [None, Some(Assoc::Left), Some(Assoc::Right), Some(Assoc::NonAssoc), Some(Assoc::All)];
    let np = precs.len().pow(k as u32);
    let na = assocs.len().pow(k as u32);
    for pc in 0..np {
        let mut c = pc;
        let mut ps = vec![];
        for _ in 0..k {
            ps.push(precs[c % precs.len()]);
            c /= precs.len();
        }
        if ps[0].is_none() {
            continue;
        }
        let mut used: Vec<u32> = ps.iter().flatten().copied().collect();
        used.sort();
        used.dedup();
        let canonical = used == [1] || used == [1, 3] || used == [1, 3, 7];
        let kept_odd = used == [3, 7] || used == [7];
        if !canonical && !kept_odd {
            continue;
        }
        for ac in 0..na {
            let mut c = ac;
            let mut alts = vec![];
            for i in 0..k {
                let a = assocs[c % assocs.len()];
                c /= assocs.len();
                // an assoc on an alternative without recursive occurrence changes nothing but
                // is legal; keep only `None` and `left` for atoms to bound the product
                alts.push(PAlt { shape: shapes[i], prec: ps[i], assoc: a });
            }
            if alts.iter().any(|a| a.shape == Shape::Atom && !matches!(a.assoc, None | Some(Assoc::Left))) {
                continue;
            }
            f(PG { alts });
        }
    }
}

// ---------------------------------------------------------------------------------------

struct Accepted {
    pg: PG,
    /// accepted inputs (sample) and one rejected input
    inputs: Vec<Vec<u8>>,
}

fn tables_key(t: &lift::Tables) -> String {
    format!("{:?}|{:?}|{:?}|{:?}|{:?}|{:?}|{}", t.action, t.eof_action, t.goto, t.reduces, t.terminals, t.token_index, t.k)
}

fn run(ctx: &mut Ctx) {
    let dir = drv::scratch_sub(&ctx.scratch.clone(), "c12");
    let thorough = ctx.tier == Tier::Thorough;
    let n = ctx.tier.pick(6, 7);
    crate::fw::CASE_BUDGET_MS.store(600_000, std::sync::atomic::Ordering::SeqCst);
    if let Some(case) = ctx.replay.clone() {
        let pg: PG = serde_json::from_value(case["pg"].clone()).expect("pg");
        let only: Option<Vec<u8>> = serde_json::from_value(case["input"].clone()).ok();
        let mut seen = HashSet::new();
        let mut tcache = HashMap::new();
        let mut acc = vec![];
        explore_one(ctx, &dir, &pg, n.max(only.as_ref().map(|v| v.len()).unwrap_or(0)), only.as_deref(), &mut seen, &mut tcache, &mut acc);
        compiled(ctx, &dir, &acc, only.as_deref());
        return;
    }
    let t_start = std::time::Instant::now();
    let mut seqs: Vec<Vec<Shape>> = vec![];
    for k in 2..=ctx.tier.pick(3, 4) {
        shape_seqs(k, thorough, &mut |s| seqs.push(s.to_vec()));
    }
    ctx.note("bounds", json!({"n": n, "shape_sequences": seqs.len(), "max_alternatives": ctx.tier.pick(3, 4)}));
    let mut seen: HashSet<String> = HashSet::new();
    let mut tcache: HashMap<String, bool> = HashMap::new();
    let mut all_acc: Vec<Accepted> = vec![];
    for (i, shapes) in seqs.iter().enumerate() {
        if !ctx.mine(i as u64) {
            continue;
        }
        if !ctx.begin_case(i as u64) {
            continue;
        }
        ctx.case_detail(&json!({"shapes": shapes}));
        let mut local: Vec<Accepted> = vec![];
        layouts(shapes, &mut |pg| {
            explore_one(ctx, &dir, &pg, n, None, &mut seen, &mut tcache, &mut local);
        });
        all_acc.extend(local);
        ctx.end_case();
    }
    // sub-corpus for the compiled parsers: a seed-rotated spread of this shard's distinct accepted
    // grammars (rustc is the bottleneck: quick compiles ~100 parsers in total, thorough ~2000)
    let want = ctx.tier.pick(3, 60);
    let stride = (all_acc.len() / want).max(1);
    let off = (ctx.seed as usize) % stride;
    let acc: Vec<Accepted> = all_acc.into_iter().enumerate().filter(|(j, _)| j % stride == off).map(|(_, a)| a).take(want + 1).collect();
    ctx.add("ms_explore", t_start.elapsed().as_millis() as u64);
    let t_start = std::time::Instant::now();
    // compile in chunks
    let mut start = 0;
    let mut ci = 0u64;
    while start < acc.len() {
        let end = (start + 24).min(acc.len());
        let idx = 1_000_000 + ci * ctx.nshards as u64 + ctx.shard as u64;
        ci += 1;
        if ctx.begin_case(idx) {
            compiled(ctx, &dir, &acc[start..end], None);
            ctx.end_case();
        }
        start = end;
    }
    ctx.add("ms_compiled", t_start.elapsed().as_millis() as u64);
}

#[allow(clippy::too_many_arguments)]
fn explore_one(ctx: &mut Ctx, dir: &std::path::Path, pg: &PG, n: usize, only: Option<&[u8]>, seen: &mut HashSet<String>, tcache: &mut HashMap<String, bool>, acc: &mut Vec<Accepted>) {
    ctx.count("layouts");
    if only.is_none() && pg.tiered().is_none() {
        // associativity on the first level: LALRPOP refuses these with a diagnostic; probe a
        // fixed spread of them instead of generating all (they are 80% of the product)
        let h = u64::from_str_radix(&crate::fw::sha_hex(&format!("{:?}", pg))[..8], 16).unwrap();
        if h % 40 != 0 {
            ctx.count("layouts_assoc_on_first_level_not_probed");
            return;
        }
    }
    let text = pg.render_annotated(false, Codegen::Table);
    let out = drv::generate_in(dir, text.as_bytes(), &GenOpts::algo(Algo::Lane));
    ctx.count("generations");
    if let Some(p) = &out.panic {
        // C18's business, but make it visible here too
        ctx.violation("precedence-expansion-panics", format!("{}: {}", pg.describe(), p), json!({"pg": pg, "grammar": text, "panic": p}));
        return;
    }
    let Some(tr) = pg.tiered() else {
        ctx.count("layouts_assoc_on_first_level");
        if out.ok {
            // no documented meaning; LALRPOP is expected to refuse these
            ctx.violation("assoc-on-first-level-accepted", format!("{}: accepted although an associativity is set on the first level", pg.describe()), json!({"pg": pg, "grammar": text}));
        }
        return;
    };
    let explicit_on_first = pg.alts.iter().zip(tr.eff.iter()).any(|(a, (li, _))| *li == 0 && a.assoc.is_some());
    if !out.ok && explicit_on_first && out.diag.contains("cannot set associativity on the first precedence level") {
        // explicit `all` on the first level: harmless but refused with a diagnostic
        ctx.count("layouts_assoc_on_first_level");
        return;
    }
    let ttext = pg.render_tiered(&tr, false, Codegen::Table);
    let tok = match tcache.get(&ttext) {
        Some(b) => *b,
        None => {
            let o = drv::generate_in(dir, ttext.as_bytes(), &GenOpts::algo(Algo::Lane));
            ctx.count("generations");
            if !o.ok && o.class() != drv::DiagClass::LrConflict {
                ctx.machinery(format!("hand-tiered grammar rejected for another reason than a conflict: {} :: {}", o.diag.lines().find(|l| l.contains("error")).unwrap_or(""), ttext.replace('\n', " ")));
            }
            tcache.insert(ttext.clone(), o.ok);
            o.ok
        }
    };
    if out.ok != tok {
        ctx.violation(
            if out.ok { "annotated-accepted-tiered-conflicts" } else { "annotated-rejected-tiered-accepted" },
            format!("{}: LALRPOP {} the annotated grammar but {} the documented tiered grammar", pg.describe(), if out.ok { "accepts" } else { "rejects" }, if tok { "accepts" } else { "rejects" }),
            json!({"pg": pg, "grammar": text, "tiered": ttext, "diag": out.diag.lines().take(6).collect::<Vec<_>>()}),
        );
        return;
    }
    if !out.ok {
        ctx.count("grammars_rejected_both");
        return;
    }
    ctx.count("grammars_accepted");
    if tr.inherited_level {
        ctx.count("inherited_level");
    }
    if tr.inherited_assoc {
        ctx.count("inherited_assoc");
    }
    for (_, a) in &tr.eff {
        match a {
            Assoc::Left => ctx.count("assoc_left"),
            Assoc::Right => ctx.count("assoc_right"),
            Assoc::NonAssoc => ctx.count("assoc_none"),
            Assoc::All => ctx.count("assoc_all"),
        }
    }
    let lifted = match lift::lift(out.rs.as_ref().unwrap()) {
        Ok(l) if l.parsers.len() == 1 => l,
        Ok(l) => {
            ctx.machinery(format!("lifter found {} parsers: {}", l.parsers.len(), pg.describe()));
            return;
        }
        Err(e) => {
            ctx.machinery(format!("lifter: {} for {}", e, pg.describe()));
            return;
        }
    };
    let t = &lifted.parsers[0];
    let key = crate::fw::sha_hex(&format!("{}#{:?}", tables_key(t), tr.cfg));
    if only.is_none() && !seen.insert(key) {
        ctx.count("layouts_with_known_tables");
        return;
    }
    ctx.count("distinct_table_sets");
    let nk = pg.nterms();
    let tok_idx = implt::extern_tok_idx(t, nk);
    if tok_idx.iter().any(|x| x.is_none()) {
        ctx.machinery(format!("token index incomplete for {}", pg.describe()));
        return;
    }
    let stats = implt::new_stats(false);
    let lang = Lang::new(&tr.cfg, n + 1);
    let mut keep: Vec<Vec<u8>> = vec![];
    let mut rejected_kept = 0;
    // DFS over inputs: a non-viable prefix is tested once and not extended
    let mut stack: Vec<Vec<u8>> = vec![vec![]];
    while let Some(inp) = stack.pop() {
        if let Some(o) = only {
            if !o.starts_with(&inp) {
                continue;
            }
        }
        let s = lang::from_slice(&inp);
        let viable = lang.viable(0, s);
        if viable && inp.len() < n {
            for k in (0..nk as u8).rev() {
                let mut x = inp.clone();
                x.push(k);
                stack.push(x);
            }
        }
        if let Some(o) = only {
            if o != inp.as_slice() {
                continue;
            }
        }
        let member = lang.accepts(0, s);
        let r = implt::run_tokens(t, &tok_idx, &implt::gapped(&inp), &stats);
        ctx.count("parses");
        let case = |what: &str| json!({"pg": pg, "grammar": text, "tiered": pg.render_tiered(&tr, false, Codegen::Table), "input": inp, "observed": what, "engine": "implt"});
        let istr: String = inp.iter().map(|k| TNAMES[*k as usize]).collect::<Vec<_>>().join(" ");
        match (&r.outcome, member) {
            (Outcome::Ok(tree), true) => {
                ctx.count("accepted");
                match lang::unique_tree(&tr.cfg, 0, &inp) {
                    None => ctx.count("ambiguous_in_tiered_cfg"),
                    Some(et) => {
                        let want = ct_of_tree(&et);
                        let got = ct_of_tnode(tree);
                        if want.operators() >= 2 {
                            ctx.count("accepted_multi_operator");
                        }
                        if want != got {
                            ctx.violation("wrong-operator-tree", format!("{} on `{}`: documented grouping {} but parsed as {}", pg.describe(), istr, want.show(), got.show()), case(&got.show()));
                        } else if ctx.p.samples.len() < 3 && want.operators() >= 3 {
                            ctx.sample(json!({"annotated": pg.describe(), "input": istr, "tree": want.show()}));
                        }
                        if keep.len() < 40 && (want.operators() >= 2 || keep.len() < 4) {
                            keep.push(inp.clone());
                        }
                    }
                }
            }
            (Outcome::Ok(tree), false) => {
                ctx.violation("accepts-nonsentence-of-tiered-grammar", format!("{} accepts `{}` as {}", pg.describe(), istr, ct_of_tnode(tree).show()), case("Ok"));
            }
            (Outcome::Panic(p), _) => {
                ctx.violation("parser-panics", format!("{} on `{}`: {}", pg.describe(), istr, p), case(p));
            }
            (_, true) => {
                ctx.violation("rejects-sentence-of-tiered-grammar", format!("{} rejects `{}`", pg.describe(), istr), case("Err"));
            }
            (_, false) => {
                ctx.count("rejected");
                if rejected_kept < 3 && !inp.is_empty() {
                    rejected_kept += 1;
                    keep.push(inp.clone());
                }
            }
        }
    }
    acc.push(Accepted { pg: pg.clone(), inputs: keep });
}

/// compiled parsers with value-building actions, both backends
fn compiled(ctx: &mut Ctx, dir: &std::path::Path, items: &[Accepted], only: Option<&[u8]>) {
    if items.is_empty() {
        return;
    }
    let env = match implr::rustc_env() {
        Ok(e) => e,
        Err(e) => {
            ctx.machinery(e);
            return;
        }
    };
    let gdir = drv::scratch_sub(dir, "rgen");
    let mut units = vec![];
    let mut meta = vec![]; // (item, codegen)
    for (ii, it) in items.iter().enumerate() {
        for cg in [Codegen::Table, Codegen::Ascent] {
            let text = it.pg.render_annotated(true, cg);
            let out = drv::generate_in(&gdir, text.as_bytes(), &GenOpts::algo(Algo::Lane));
            ctx.count("generations");
            if !out.ok {
                ctx.violation("accepted-with-unit-actions-rejected-with-values", format!("{} [{}]: {}", it.pg.describe(), cg.name(), out.diag.lines().next().unwrap_or("")), json!({"pg": it.pg, "grammar": text}));
                continue;
            }
            let glue = "pub fn run(_entry: usize, input: &str) -> String { let t = counting(toks(input).into_iter()); render(SParser::new().parse(t).map(|v| v.show())) }\n".to_string();
            units.push(implr::Unit { rs: out.rs.unwrap(), glue });
            meta.push((ii, cg));
        }
    }
    let bdir = dir.join("rbuild");
    let _ = std::fs::remove_dir_all(&bdir);
    let built = match implr::build(&env, &bdir, &units, dg::V_PRELUDE) {
        Ok(b) => b,
        Err(e) => {
            ctx.machinery(format!("implr build: {}", e));
            return;
        }
    };
    for (i, e) in built.unit_errors.iter().enumerate() {
        if let Some(e) = e {
            ctx.violation("annotated-grammar-does-not-compile", format!("{} [{}]: {}", items[meta[i].0].pg.describe(), meta[i].1.name(), e), json!({"pg": items[meta[i].0].pg, "rustc": e}));
        }
    }
    let mut jobs = vec![];
    let mut jm = vec![];
    for (u, (ii, _)) in meta.iter().enumerate() {
        for inp in &items[*ii].inputs {
            if let Some(o) = only {
                if o != inp.as_slice() {
                    continue;
                }
            }
            jobs.push(implr::Job { unit: u, entry: 0, input: crate::obs::input_string(inp) });
            jm.push((u, inp.clone()));
        }
    }
    let res = implr::run(&built, &jobs, 60_000);
    let _ = std::fs::remove_dir_all(&bdir);
    for ((u, inp), v) in jm.iter().zip(res.iter()) {
        let (ii, cg) = meta[*u];
        let pg = &items[ii].pg;
        if v.get("uncompiled").is_some() {
            continue;
        }
        let o = Obs::from_json(v);
        ctx.count("parses");
        ctx.count("implr_parses");
        let tr = pg.tiered().unwrap();
        let et = lang::unique_tree(&tr.cfg, 0, inp);
        let istr: String = inp.iter().map(|k| TNAMES[*k as usize]).collect::<Vec<_>>().join(" ");
        let case = json!({"pg": pg, "grammar": pg.render_annotated(true, cg), "codegen": cg.name(), "input": inp, "observed": o, "engine": "implr"});
        if o.is_abnormal() {
            ctx.violation(&format!("{}-{}", cg.name(), o.kind.to_lowercase()), format!("{} on `{}`: {}", pg.describe(), istr, o.short()), case);
            continue;
        }
        match et {
            Some(t) => {
                let want = value_of_tree(&t, &tr);
                if !o.is_ok() || o.value != want {
                    ctx.violation(&format!("{}-wrong-value", cg.name()), format!("{} on `{}`: documented value {:?}, got {}", pg.describe(), istr, want, o.short()), case);
                } else {
                    ctx.count("implr_values_equal");
                }
            }
            None => {
                if o.is_ok() {
                    ctx.violation(&format!("{}-accepts-nonsentence", cg.name()), format!("{} on `{}`: {}", pg.describe(), istr, o.short()), case);
                }
            }
        }
    }
}
