//! C25: generated code is hygienic - consistently renaming user identifiers changes nothing.
//!
//! Two feature-dense template grammars (extern tokens with grammar/type parameters, a macro,
//! repetitions, a precedence-annotated nonterminal, `@L`/`@R`, a fallible action, anonymous
//! symbols; and a built-in-lexer grammar) have every user identifier as a slot. The
//! conventional naming is the reference. Explored: every slot x every name of an adversarial
//! pool (names LALRPOP derives internally with and without the `__` prefix, names used inside
//! generated expansions, names of generated items), every ordered pair of two slots over the
//! short list of unprefixed derived names, and rotations assigning pool names to all slots at
//! once. Oracle (differential): LALRPOP's verdict, rustc's verdict and the result (value, error,
//! side-effect log) on every explored input must equal those of the conventional naming.

use crate::dg;
use crate::drv::{self, GenOpts};
use crate::fw::{CheckDef, Ctx};
use crate::gram::{Algo, Codegen};
use crate::implr;
use crate::lang;
use crate::obs::Obs;
use serde_json::json;
use std::collections::BTreeMap;

pub fn def() -> CheckDef {
    CheckDef {
        id: "C25",
        level: "exploration",
        rule: "two template grammars (A: extern tokens, lifetime + type parameter, two grammar parameters, generic macro, repetitions, two precedence-annotated nonterminals, @L/@R, =>? action, anonymous symbol; B: built-in lexer with regex terminals) whose user identifiers are slots (nonterminals, macro name, macro parameter, type parameter, grammar parameters, bindings) x renamings: (1) each slot <- each name of the adversarial pool (internally derived names with the `__` prefix, names used unprefixed inside generated expansions such as `v` `e` `error` `<Name><level>`, names of generated items), (2) every ordered pair of distinct slots <- every ordered pair of the unprefixed names, (3) rotations renaming all slots at once; both code generators. Oracle: differential against the conventional naming: same LALRPOP verdict, same rustc verdict, same result and side-effect log on every accepted input <= n of the reference and a set of rejected ones. evaluations = compiled parses; distinct_nontrivial = renamed variants compared with the reference",
        evaluations: "parses",
        nontrivial: "variants_compared",
        mc: None,
        require: &["parses", "variants_compared", "variants_single_slot", "variants_pair", "variants_rotation", "reference_accepted_inputs"],
        exhaustive: true,
        assumptions: &["renamings are restricted to identifiers that are not Rust keywords or prelude names, lower-case for value slots; `input` is excluded for the built-in-lexer template as documented", "rustc is the oracle for `compiles`"],
        // rustc-bound: few workers
        shards: 4,
        run,
        crash_class: Some("generator"),
    }
}

#[derive(Clone, Copy, PartialEq, Eq, Debug)]
enum Kind {
    /// nonterminal / macro name / macro parameter / type parameter: any identifier
    TypeLike,
    /// binding or grammar parameter: used as a Rust variable
    Value,
}

struct Template {
    name: &'static str,
    text: &'static str,
    /// (slot, conventional name, kind)
    slots: &'static [(&'static str, &'static str, Kind)],
    /// slot holding the pub nonterminal
    start: &'static str,
    /// slot of the precedence-annotated nonterminal and its non-top levels
    prec: Option<(&'static str, &'static [u32])>,
    intern: bool,
}

const TA: Template = Template {
    name: "A-extern",
    text: r####"use super::{Tok, V, ToV};
use lalrpop_util::ParseError;
GRAMMAR_ATTR
grammar<'g, {TP}>({gp}: &'g mut Vec<u32>, {gq}: &'g {TP}) where {TP}: Clone + ToV;
extern { type Location = usize; type Error = String; enum Tok { "a" => Tok::T0, "b" => Tok::T1, "c" => Tok::T2, "d" => Tok::T3, "e" => Tok::T4, "f" => Tok::T5 } }
pub {S}: V = {
    <{b0}:{L}<{E}>> <{b1}:{Tail}?> => { {gp}.push(1); V::n(1, vec![{b0}.v(), {b1}.v(), {gq}.clone().v()]) },
};
{L}<{MP}>: Vec<{MP}> = {
    <mut {b2}:(<{MP}> "e")*> <{b3}:{MP}> => { {b2}.push({b3}); {b2} },
};
{E}: V = {
    #[precedence(level="0")]
    "a" => V::n(2, vec![]),
    #[precedence(level="1")] #[assoc(side="left")]
    <{b4}:{E}> "b" <{b5}:{E}> => V::n(3, vec![{b4}, {b5}]),
    #[precedence(level="2")] #[assoc(side="right")]
    <{b4}:{E}> "c" <{b5}:{E}> => { {gp}.push(3); V::n(4, vec![{b4}, {b5}]) },
};
{Tail}: V = {
    <{b6}:@L> "d" <{b7}:"a"+> <{b8}:@R> =>? {
        if {b7}.len() > 2 { Err(ParseError::User { error: format!("too many at {}", {b6}) }) } else { {gp}.push(2); Ok(V::n(5, vec![{b6}.v(), {b8}.v(), {b7}.len().v()])) }
    },
    "d" "d" <{Inner}>,
};
{Inner}: V = {
    #[precedence(level="0")]
    "f" <{E}> "f",
    #[precedence(level="1")] #[assoc(side="left")]
    <{b4}:{Inner}> "f" "f" <{b5}:{Inner}> => V::n(6, vec![{b4}, {b5}]),
};
"####,
    slots: &[
        ("S", "Start", Kind::TypeLike),
        ("L", "List", Kind::TypeLike),
        ("E", "Expr", Kind::TypeLike),
        ("Tail", "Tail", Kind::TypeLike),
        ("Inner", "Inner", Kind::TypeLike),
        ("MP", "T", Kind::TypeLike),
        ("TP", "P", Kind::TypeLike),
        ("gp", "log", Kind::Value),
        ("gq", "extra", Kind::Value),
        ("b0", "items", Kind::Value),
        ("b1", "tail", Kind::Value),
        ("b2", "list", Kind::Value),
        ("b3", "last", Kind::Value),
        ("b4", "lhs", Kind::Value),
        ("b5", "rhs", Kind::Value),
        ("b6", "lo", Kind::Value),
        ("b7", "many", Kind::Value),
        ("b8", "hi", Kind::Value),
    ],
    start: "S",
    prec: Some(("E", &[0, 1])),
    intern: false,
};

const TB: Template = Template {
    name: "B-builtin-lexer",
    text: r####"GRAMMAR_ATTR
grammar({gp}: &mut Vec<u32>);
pub {S}: String = {
    <{b0}:{W}*> <{b1}:{Num}?> => { {gp}.push({b0}.len() as u32); format!("{}|{}", {b0}.join(","), {b1}.unwrap_or_default()) },
};
{W}: String = {
    <{b2}:r"[a-z]+"> => {b2}.to_string(),
    "(" <{b3}:{W}+> ")" => format!("[{}]", {b3}.join(" ")),
};
{Num}: String = {
    r"[0-9]+" => <>.to_string(),
};
"####,
    slots: &[("S", "Start", Kind::TypeLike), ("W", "Word", Kind::TypeLike), ("Num", "Num", Kind::TypeLike), ("gp", "log", Kind::Value), ("b0", "words", Kind::Value), ("b1", "num", Kind::Value), ("b2", "w", Kind::Value), ("b3", "inner", Kind::Value)],
    start: "S",
    prec: None,
    intern: true,
};

/// adversarial names. `true` = may be used for value slots (lower-case / underscore names)
fn pool() -> Vec<(&'static str, bool)> {
    vec![
        // unprefixed names LALRPOP derives or uses inside generated expansions
        ("v", true),
        ("e", true),
        ("error", true),
        ("Expr0", false),
        ("Expr1", false),
        ("Expr2", false),
        // hex-escaped forms of derived nonterminal names (`Tail?`, `"a"+`) as the recursive-ascent
        // generator spells them in its nonterminal enum
        ("Tail_3f", false),
        ("_22a_22_2b", false),
        ("Inner0", false),
        ("StartParser", false),
        ("Parser", false),
        ("Token", false),
        ("alloc", true),
        ("core", true),
        ("start", true),
        ("end", true),
        ("lookahead", true),
        ("lookbehind", true),
        ("state", true),
        ("states", true),
        ("symbols", true),
        ("tokens", true),
        ("integer", true),
        ("index", true),
        ("result", true),
        ("action", true),
        ("s", true),
        // prefixed internal names (the unique-prefix search must get out of their way)
        ("__0", true),
        ("__1", true),
        ("__sym0", true),
        ("__action0", true),
        ("__action1", true),
        ("__lookahead", true),
        ("__lookbehind", true),
        ("__tokens", true),
        ("__states", true),
        ("__symbols", true),
        ("__state", true),
        ("__nt", true),
        ("__temp0", true),
        ("__", true),
        ("___", true),
        ("____", true),
        ("__Symbol", false),
        ("__StateMachine", false),
        ("__ToTriple", false),
        ("__lalrpop_util", true),
        ("__Nonterminal", false),
        ("__parse__Start", true),
        ("__intern_token", true),
        ("__TOKEN", false),
        ("__TOKENS", false),
        ("__Variant0", false),
        ("Variant0", false),
        ("__ACTION", false),
        ("__token_to_integer", true),
        ("__reduce", true),
        ("__goto", true),
    ]
}

fn render(t: &Template, names: &BTreeMap<&str, String>, cg: Codegen) -> String {
    let mut s = t.text.replace("GRAMMAR_ATTR", if cg == Codegen::Ascent { "#[recursive_ascent]" } else { "" });
    for (slot, name) in names {
        s = s.replace(&format!("{{{}}}", slot), name);
    }
    s
}

fn glue(t: &Template, names: &BTreeMap<&str, String>) -> String {
    let start = &names[t.start];
    if t.intern {
        format!("pub fn run(_e: usize, input: &str) -> String {{ let mut lg: Vec<u32> = vec![]; let r = {}Parser::new().parse(&mut lg, input); for x in &lg {{ log(*x); }} render(r) }}\n", start)
    } else {
        format!("pub fn run(_e: usize, input: &str) -> String {{ let mut lg: Vec<u32> = vec![]; let t = counting(toks(input).into_iter()); let r = {}Parser::new().parse(&mut lg, &7usize, t).map(|v| v.show()); for x in &lg {{ log(*x); }} render(r) }}\n", start)
    }
}

struct Variant {
    what: String,
    kind: &'static str,
    names: BTreeMap<&'static str, String>,
    cg: Codegen,
}

fn reference_names(t: &Template) -> BTreeMap<&'static str, String> {
    t.slots.iter().map(|(s, n, _)| (*s, n.to_string())).collect()
}

fn variants(t: &Template, thorough: bool, seed: u64) -> Vec<Variant> {
    let mut out = vec![];
    let mut single_skipped = 0u64;
    let reference = reference_names(t);
    let pool = pool();
    let ok_for = |kind: Kind, (name, value_ok): (&str, bool)| -> bool {
        if t.intern && name == "input" {
            return false;
        }
        match kind {
            Kind::TypeLike => true,
            Kind::Value => value_ok,
        }
    };
    // (1) one slot at a time
    for (slot, _, kind) in t.slots {
        for p in &pool {
            if !ok_for(*kind, *p) || reference.values().any(|n| n == p.0) {
                continue;
            }
            for cg in [Codegen::Table, Codegen::Ascent] {
                if cg == Codegen::Ascent && !thorough && !matches!(p.0, "v" | "e" | "__0") {
                    continue;
                }
                // quick: the unprefixed names and a spread of the prefixed ones for every slot
                if !thorough && p.0.starts_with("__") && !matches!(p.0, "__0" | "__sym0" | "__" | "__Symbol" | "__parse__Start") {
                    continue;
                }
                // quick: a seed-rotated half of the single-slot renamings; the names generated
                // expansions use unprefixed are always kept
                if !thorough && !matches!(p.0, "v" | "e" | "error" | "Expr0" | "Expr1" | "Inner0" | "Tail_3f" | "_22a_22_2b") && (out.len() as u64 + seed) % 2 == 1 {
                    single_skipped += 1;
                    out.push(Variant { what: String::new(), kind: "skip", names: BTreeMap::new(), cg });
                    continue;
                }
                let mut names = reference.clone();
                names.insert(slot, p.0.to_string());
                out.push(Variant { what: format!("{}:={}", slot, p.0), kind: "variants_single_slot", names, cg });
            }
        }
    }
    // (2) ordered pairs of slots x ordered pairs of the unprefixed derived names
    let short: Vec<(&str, bool)> = vec![("v", true), ("e", true), ("error", true), ("__0", true), ("__sym0", true), ("lookahead", true)];
    for (i, (s1, _, k1)) in t.slots.iter().enumerate() {
        for (j, (s2, _, k2)) in t.slots.iter().enumerate() {
            if i == j {
                continue;
            }
            // quick: pairs that involve a grammar parameter, the macro name or the start symbol
            if !thorough && !(matches!(*s1, "gp" | "gq") && (t.intern || matches!(*s2, "gp" | "gq" | "L" | "S" | "E" | "b0" | "b2"))) {
                continue;
            }
            for p1 in &short {
                for p2 in &short {
                    if p1.0 == p2.0 || !ok_for(*k1, *p1) || !ok_for(*k2, *p2) {
                        continue;
                    }
                    // quick: pairs over the first three names only
                    if !thorough && !(matches!(p1.0, "v" | "e" | "error") && matches!(p2.0, "v" | "e" | "error")) {
                        continue;
                    }
                    let mut names = reference.clone();
                    names.insert(s1, p1.0.to_string());
                    names.insert(s2, p2.0.to_string());
                    out.push(Variant { what: format!("{}:={} {}:={}", s1, p1.0, s2, p2.0), kind: "variants_pair", names, cg: Codegen::Table });
                }
            }
        }
    }
    // (3) rotations: all slots renamed at once
    let tpool: Vec<&str> = pool.iter().map(|p| p.0).collect();
    let vpool: Vec<&str> = pool.iter().filter(|p| p.1).map(|p| p.0).collect();
    for r in 0..(if thorough { tpool.len() } else { 3 }) {
        for cg in [Codegen::Table, Codegen::Ascent] {
            let mut names: BTreeMap<&'static str, String> = BTreeMap::new();
            let mut used: Vec<String> = vec![];
            let (mut ti, mut vi) = (r * 3, r * 5);
            for (slot, _, kind) in t.slots {
                loop {
                    let cand = match kind {
                        Kind::TypeLike => {
                            ti += 1;
                            tpool[ti % tpool.len()]
                        }
                        Kind::Value => {
                            vi += 1;
                            vpool[vi % vpool.len()]
                        }
                    };
                    if !used.iter().any(|u| u == cand) && !(t.intern && cand == "input") {
                        used.push(cand.to_string());
                        names.insert(slot, cand.to_string());
                        break;
                    }
                }
            }
            out.push(Variant { what: format!("rotation {}", r), kind: "variants_rotation", names, cg });
        }
    }
    let _ = single_skipped;
    out.retain(|v| v.kind != "skip");
    out
}

fn inputs_for(t: &Template) -> Vec<String> {
    if t.intern {
        let mut v = vec![];
        for s in crate::checks::core::lexer_strings(&["ab", " ", "(", ")", "12", "$"], 4) {
            v.push(s);
        }
        v
    } else {
        lang::all_inputs(6, 6).into_iter().filter(|i| i.first().map(|t| *t == 0).unwrap_or(true)).map(|i| crate::obs::input_string(&i)).collect()
    }
}

fn run(ctx: &mut Ctx) {
    let dir = drv::scratch_sub(&ctx.scratch.clone(), "c25");
    let thorough = ctx.tier == crate::fw::Tier::Thorough;
    crate::fw::CASE_BUDGET_MS.store(900_000, std::sync::atomic::Ordering::SeqCst);
    let env = match implr::rustc_env() {
        Ok(e) => e,
        Err(e) => {
            ctx.machinery(e);
            return;
        }
    };
    let replay = ctx.replay.clone();
    let mut case_no = 0u64;
    for t in [&TA, &TB] {
        let mut vars = variants(t, thorough, ctx.seed);
        if let Some(case) = &replay {
            if case["template"].as_str() != Some(t.name) {
                continue;
            }
            let want: BTreeMap<String, String> = serde_json::from_value(case["names"].clone()).unwrap_or_default();
            let cg = if case["codegen"].as_str() == Some("ascent") { Codegen::Ascent } else { Codegen::Table };
            let names: BTreeMap<&'static str, String> = t.slots.iter().map(|(s, n, _)| (*s, want.get(*s).cloned().unwrap_or(n.to_string()))).collect();
            vars = vec![Variant { what: "replay".into(), kind: "variants_single_slot", names, cg }];
        }
        ctx.note(&format!("variants_{}", t.name), json!(vars.len()));
        // this shard's variants, in chunks; every chunk carries the reference (both backends)
        let mine: Vec<&Variant> = vars.iter().enumerate().filter(|(i, _)| replay.is_some() || ctx.mine(*i as u64)).map(|(_, v)| v).collect();
        let inputs_all = inputs_for(t);
        for chunk in mine.chunks(40) {
            case_no += 1;
            let idx = case_no * ctx.nshards as u64 + ctx.shard as u64;
            if !ctx.begin_case(idx) {
                continue;
            }
            run_chunk(ctx, &env, &dir, t, chunk, &inputs_all);
            ctx.end_case();
        }
    }
}

fn run_chunk(ctx: &mut Ctx, env: &implr::RustcEnv, dir: &std::path::Path, t: &Template, chunk: &[&Variant], inputs_all: &[String]) {
    let gdir = drv::scratch_sub(dir, "gen");
    let refn = reference_names(t);
    // units 0,1 = reference table / ascent
    let mut units = vec![];
    let mut unit_of: Vec<Option<usize>> = vec![]; // per chunk variant
    for cg in [Codegen::Table, Codegen::Ascent] {
        let text = render(t, &refn, cg);
        let out = drv::generate_in(&gdir, text.as_bytes(), &GenOpts::algo(Algo::Lane));
        if !out.ok {
            ctx.machinery(format!("reference naming of template {} rejected: {}", t.name, out.diag.lines().find(|l| l.contains("error")).unwrap_or("")));
            return;
        }
        units.push(implr::Unit { rs: out.rs.unwrap(), glue: glue(t, &refn) });
    }
    let case_of = |v: &Variant, extra: serde_json::Value| {
        let names: BTreeMap<String, String> = v.names.iter().map(|(k, n)| (k.to_string(), n.clone())).collect();
        json!({"template": t.name, "names": names, "codegen": v.cg.name(), "renaming": v.what, "grammar": render(t, &v.names, v.cg), "detail": extra})
    };
    // precedence level names of the renamed grammar: `<E><level>` for non-top levels
    let level_collision = |v: &Variant| -> bool {
        match t.prec {
            None => false,
            Some((slot, levels)) => {
                let e = &v.names[slot];
                levels.iter().any(|l| v.names.iter().any(|(s, n)| *s != slot && n == &format!("{}{}", e, l)))
            }
        }
    };
    for v in chunk {
        ctx.count("variants");
        let text = render(t, &v.names, v.cg);
        let out = drv::generate_in(&gdir, text.as_bytes(), &GenOpts::algo(Algo::Lane));
        ctx.count("generations");
        if let Some(p) = &out.panic {
            ctx.violation("renaming-makes-lalrpop-panic", format!("[{} {}] {}: {}", t.name, v.cg.name(), v.what, p), case_of(v, json!({"panic": p})));
            unit_of.push(None);
            continue;
        }
        if !out.ok {
            let first = out.diag.lines().find(|l| l.contains("error")).unwrap_or("").to_string();
            let class = if level_collision(v) { "precedence-level-name-collision" } else { "renaming-makes-lalrpop-reject" };
            ctx.violation(class, format!("[{} {}] {}: the conventional naming is accepted, this one is rejected: {}", t.name, v.cg.name(), v.what, first), case_of(v, json!({"diag": out.diag.lines().take(6).collect::<Vec<_>>()})));
            unit_of.push(None);
            continue;
        }
        unit_of.push(Some(units.len()));
        units.push(implr::Unit { rs: out.rs.unwrap(), glue: glue(t, &v.names) });
    }
    let bdir = dir.join("build");
    let _ = std::fs::remove_dir_all(&bdir);
    let built = match implr::build(env, &bdir, &units, &format!("{}{}", dg::V_PRELUDE, crate::checks::c13::EXTRA_TOV)) {
        Ok(b) => b,
        Err(e) => {
            ctx.machinery(format!("implr build: {}", e));
            return;
        }
    };
    if built.unit_errors[0].is_some() || built.unit_errors[1].is_some() {
        ctx.machinery(format!("reference naming of template {} does not compile: {:?}", t.name, &built.unit_errors[..2]));
        return;
    }
    for (vi, v) in chunk.iter().enumerate() {
        if let Some(u) = unit_of[vi] {
            if let Some(e) = &built.unit_errors[u] {
                let gparam = t.slots.iter().any(|(s, _, _)| (*s == "gp" || *s == "gq") && matches!(v.names[*s].as_str(), "v" | "e"));
                // generated code names the crates `alloc` and `core` by unqualified path; a type
                // parameter of that name shadows them inside every generated function
                let tparam = t.slots.iter().any(|(s, _, _)| *s == "TP" && matches!(v.names[*s].as_str(), "alloc" | "core") && e.contains(&format!("not found for `{}`", v.names[*s])));
                let class = if gparam {
                    "grammar-parameter-named-like-repeat-binding"
                } else if tparam {
                    "type-parameter-named-like-extern-crate"
                } else {
                    "renaming-breaks-compilation"
                };
                ctx.violation(class, format!("[{} {}] {}: the conventional naming compiles, this one does not: {}", t.name, v.cg.name(), v.what, e), case_of(v, json!({"rustc": e})));
            }
        }
    }
    // reference run over all inputs: keep accepted ones and a spread of rejected ones
    let jobs0: Vec<implr::Job> = inputs_all.iter().map(|i| implr::Job { unit: 0, entry: 0, input: i.clone() }).collect();
    let r0 = implr::run(&built, &jobs0, 60_000);
    let mut keep: Vec<(String, Obs)> = vec![];
    let mut nrej = 0;
    for (i, v) in inputs_all.iter().zip(r0.iter()) {
        let o = Obs::from_json(v);
        if o.is_abnormal() {
            ctx.machinery(format!("reference parser abnormal on {:?}: {}", i, o.short()));
            continue;
        }
        if o.is_ok() || o.kind == "User" {
            ctx.count("reference_accepted_inputs");
            keep.push((i.clone(), o));
        } else {
            nrej += 1;
            if nrej % 7 == 0 && nrej < 7 * 60 {
                keep.push((i.clone(), o));
            }
        }
    }
    let mut jobs = vec![];
    let mut jm = vec![];
    for (vi, _) in chunk.iter().enumerate() {
        let Some(u) = unit_of[vi] else { continue };
        if built.unit_errors[u].is_some() {
            continue;
        }
        for (k, (i, _)) in keep.iter().enumerate() {
            jobs.push(implr::Job { unit: u, entry: 0, input: i.clone() });
            jm.push((vi, k));
        }
    }
    // the ascent reference must agree with the table reference too (sanity of the harness glue)
    for (k, (i, _)) in keep.iter().enumerate() {
        jobs.push(implr::Job { unit: 1, entry: 0, input: i.clone() });
        jm.push((usize::MAX, k));
    }
    let res = implr::run(&built, &jobs, 60_000);
    let _ = std::fs::remove_dir_all(&bdir);
    let mut compared = std::collections::BTreeSet::new();
    let mut reported = std::collections::BTreeSet::new();
    // reference results of the recursive-ascent build (expected lists differ between backends)
    let mut ref_ascent: BTreeMap<usize, Obs> = BTreeMap::new();
    for ((vi, k), r) in jm.iter().zip(res.iter()) {
        if *vi == usize::MAX {
            ref_ascent.insert(*k, Obs::from_json(r));
        }
    }
    for ((vi, k), r) in jm.iter().zip(res.iter()) {
        if *vi == usize::MAX {
            continue;
        }
        let o = Obs::from_json(r);
        let v = chunk[*vi];
        let input = &keep[*k].0;
        let want = if v.cg == Codegen::Ascent { &ref_ascent[k] } else { &keep[*k].1 };
        ctx.count("parses");
        let same = o.kind == want.kind && o.value == want.value && o.user == want.user && o.token == want.token && o.location == want.location && o.log == want.log && o.expected == want.expected;
        compared.insert(*vi);
        if !same && reported.insert(*vi) {
            let class = if o.is_abnormal() { "renaming-makes-parser-crash" } else { "renaming-changes-result" };
            ctx.violation(class, format!("[{} {}] {} on {:?}: conventional naming {} / renamed {}", t.name, v.cg.name(), v.what, input, want.short(), o.short()), case_of(v, json!({"input": input, "reference": want, "renamed": o})));
        }
    }
    for vi in compared {
        ctx.count("variants_compared");
        ctx.count(chunk[vi].kind);
        if ctx.p.samples.len() < 3 && chunk[vi].kind == "variants_rotation" {
            ctx.sample(json!({"template": t.name, "renaming": chunk[vi].names, "inputs_compared": keep.len()}));
        }
    }
}
