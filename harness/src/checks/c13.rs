//! C13: `X*`, `X+`, `X?`, groups and macros (with conditions) expand by substitution.
//!
//! F-sugar: a start symbol whose alternatives use sugar expressions of bounded depth (atoms,
//! repetitions, groups with every selection mask, repetitions of groups, uses of a library of
//! six macros incl. conditional alternatives with ==, !=, ~~, !~, nested uses, a macro whose
//! body uses another macro, two different instantiations side by side).
//! Oracle: the harness desugars each use *structurally* (never via printed forms) into a fresh
//! nonterminal by substituting the arguments, exactly as the statement describes:
//!  (i)   LALRPOP's verdict on the sugared text = its verdict on the hand-desugared text;
//!  (ii)  table model of the sugared grammar: Ok <=> member of the desugared CFG's language on
//!        every token sequence <= n (non-viable prefixes not extended);
//!  (iii) compiled sugared vs compiled hand-desugared parser: same rendered value (Vec in input
//!        order, Option, tuples/single values of groups) on the explored inputs.

use crate::dg;
use crate::drv::{self, GenOpts};
use crate::fw::{CheckDef, Ctx, Tier};
use crate::gram::{Algo, Cfg, Codegen, Sym, TNAMES};
use crate::implr;
use crate::implt::{self, Outcome};
use crate::lang::{self, Lang};
use crate::lift;
use crate::obs::Obs;
use serde::{Deserialize, Serialize};
use serde_json::json;
use std::collections::HashMap;
use std::fmt::Write;

pub fn def() -> CheckDef {
    CheckDef {
        id: "C13",
        level: "exploration",
        rule: "F-sugar: start symbol with one or two sugar items (and two-alternative layouts) from a menu of bounded depth: atoms (two terminals, a nonterminal), X* X+ X?, two-element groups under all four selection masks, repetitions of groups, uses of six library macros (generic Vec-typed list with separator, tuple-typed pair, a macro with four conditional alternatives under == != ~~ !~, macros whose body repeats the parameter, a macro whose body instantiates another macro), nested uses M<N<X>>, M<X*>, M<(X Y)>, and pairs of different instantiations of one macro; plus printed-form collision candidates (`!*` next to a nonterminal named `error`). Oracle: structural desugaring by the harness into fresh nonterminals; verdict equality; language equality on the table model for all token sequences <= n; value equality compiled sugared vs compiled desugared on a rotating sub-corpus. evaluations = model parses + compiled parses; distinct_nontrivial = accepted (grammar, input) pairs of the model run whose input has >= 2 tokens",
        evaluations: "parses",
        nontrivial: "accepted_nontrivial",
        mc: None,
        require: &["parses", "accepted_nontrivial", "grammars_accepted", "grammars_rejected_both", "implr_pairs_compared", "cond_alternatives_dropped", "macro_instances", "distinct_instantiation_pairs", "repeat_of_group"],
        exhaustive: true,
        assumptions: &["the desugaring in harness/src/checks/c13.rs transcribes the documented expansion (X* = eps | X+ inline, X+ left-recursive, X? inline, groups inline with the tuple/single value of the selected symbols, macro instance = body with arguments substituted and false conditions dropped)", "`~~` / `!~` are evaluated with the regex crate's unanchored is_match, as documented for macro conditions", "value equality is judged between two compiled parsers (sugared / hand-desugared, explicit actions); C02 judges that explicit actions are evaluated correctly"],
        shards: 0,
        run,
        crash_class: Some("generator"),
    }
}

#[derive(Clone, PartialEq, Eq, Hash, Debug, Serialize, Deserialize, PartialOrd, Ord)]
pub enum SS {
    T(u8),
    /// the plain nonterminal `A`
    A,
    Star(Box<SS>),
    Plus(Box<SS>),
    Opt(Box<SS>),
    /// (selected?, symbol)
    Grp(Vec<(bool, SS)>),
    Mac(u8, Vec<SS>),
    /// macro parameter (inside library bodies only)
    Par(u8),
    /// the error-recovery symbol `!`
    Bang,
    /// a user nonterminal literally named `error`
    ErrNt,
    /// the bare terminal `ID` declared in the extern block (a macro parameter of the library
    /// has the same name)
    Bare,
}

#[derive(Clone, Debug, PartialEq)]
enum Ty {
    V,
    Tok,
    Rec, // ErrorRecovery value of `!`
    Unit,
    Vec(Box<Ty>),
    Opt(Box<Ty>),
    Tup(Vec<Ty>),
    Par(u8),
}
impl Ty {
    fn text(&self) -> String {
        match self {
            Ty::V => "V".into(),
            Ty::Tok => "Tok".into(),
            Ty::Rec => "lalrpop_util::ErrorRecovery<usize, Tok, String>".into(),
            Ty::Unit => "()".into(),
            Ty::Vec(t) => format!("Vec<{}>", t.text()),
            Ty::Opt(t) => format!("Option<{}>", t.text()),
            Ty::Tup(ts) => format!("({})", ts.iter().map(|t| t.text()).collect::<Vec<_>>().join(", ")),
            Ty::Par(_) => panic!("unsubstituted type parameter"),
        }
    }
    fn subst(&self, args: &[Ty]) -> Ty {
        match self {
            Ty::Par(i) => args[*i as usize].clone(),
            Ty::Vec(t) => Ty::Vec(Box::new(t.subst(args))),
            Ty::Opt(t) => Ty::Opt(Box::new(t.subst(args))),
            Ty::Tup(ts) => Ty::Tup(ts.iter().map(|t| t.subst(args)).collect()),
            t => t.clone(),
        }
    }
    /// as written in a macro definition, with parameter names
    fn text_params(&self, params: &[&str]) -> String {
        match self {
            Ty::Par(i) => params[*i as usize].to_string(),
            Ty::Vec(t) => format!("Vec<{}>", t.text_params(params)),
            Ty::Opt(t) => format!("Option<{}>", t.text_params(params)),
            Ty::Tup(ts) => format!("({})", ts.iter().map(|t| t.text_params(params)).collect::<Vec<_>>().join(", ")),
            t => t.text(),
        }
    }
}

#[derive(Clone, Copy, PartialEq, Debug)]
enum Op {
    Eq,
    Ne,
    Match,
    NotMatch,
}
impl Op {
    fn text(self) -> &'static str {
        match self {
            Op::Eq => "==",
            Op::Ne => "!=",
            Op::Match => "~~",
            Op::NotMatch => "!~",
        }
    }
}

#[derive(Clone, Copy, PartialEq, Debug)]
enum Bind {
    No,
    Name(&'static str),
    Mut(&'static str),
}

struct MAlt {
    cond: Option<(u8, Op, &'static str)>,
    body: Vec<(Bind, SS)>,
    action: &'static str,
}
struct MDef {
    name: &'static str,
    params: &'static [&'static str],
    ty: Ty,
    alts: Vec<MAlt>,
}

const SEP: u8 = 4; // "e" plays the separator

fn library() -> Vec<MDef> {
    let p = |i: u8| SS::Par(i);
    vec![
        // 0: the classic separated list
        MDef {
            name: "Comma",
            params: &["T"],
            ty: Ty::Vec(Box::new(Ty::Par(0))),
            alts: vec![MAlt {
                cond: None,
                body: vec![(Bind::Mut("v"), SS::Star(Box::new(SS::Grp(vec![(true, p(0)), (false, SS::T(SEP))])))), (Bind::Name("x"), SS::Opt(Box::new(p(0))))],
                action: "match x { None => v, Some(x) => { v.push(x); v } }",
            }],
        },
        // 1: tuple-typed pair
        MDef { name: "Pair", params: &["X", "Y"], ty: Ty::Tup(vec![Ty::Par(0), Ty::Par(1)]), alts: vec![MAlt { cond: None, body: vec![(Bind::Name("p"), p(0)), (Bind::No, SS::T(SEP)), (Bind::Name("q"), p(1))], action: "(p, q)" }] },
        // 2: conditional alternatives
        MDef {
            name: "Sel",
            params: &["X"],
            ty: Ty::V,
            alts: vec![
                MAlt { cond: Some((0, Op::Eq, "a")), body: vec![(Bind::Name("x"), p(0)), (Bind::No, SS::T(3))], action: "V::n(60, vec![x.v()])" },
                MAlt { cond: Some((0, Op::Ne, "a")), body: vec![(Bind::No, SS::T(3)), (Bind::Name("x"), p(0))], action: "V::n(61, vec![x.v()])" },
                MAlt { cond: Some((0, Op::Match, "[ab]")), body: vec![(Bind::Name("x"), p(0)), (Bind::Name("y"), p(0)), (Bind::No, SS::T(2))], action: "V::n(62, vec![x.v(), y.v()])" },
                MAlt { cond: Some((0, Op::NotMatch, "^[ab]$")), body: vec![(Bind::No, SS::T(2)), (Bind::No, SS::T(2)), (Bind::Name("x"), p(0))], action: "V::n(63, vec![x.v()])" },
            ],
        },
        // 3: body repeats the parameter
        MDef { name: "Wrap", params: &["X"], ty: Ty::Vec(Box::new(Ty::Par(0))), alts: vec![MAlt { cond: None, body: vec![(Bind::No, SS::T(3)), (Bind::Name("v"), SS::Star(Box::new(p(0))))], action: "v" }] },
        // 4: plus and optional of the parameter
        MDef {
            name: "Twice",
            params: &["X"],
            ty: Ty::Tup(vec![Ty::Vec(Box::new(Ty::Par(0))), Ty::Opt(Box::new(Ty::Par(0)))]),
            alts: vec![MAlt { cond: None, body: vec![(Bind::Name("v"), SS::Plus(Box::new(p(0)))), (Bind::No, SS::T(SEP)), (Bind::Name("o"), SS::Opt(Box::new(p(0))))], action: "(v, o)" }],
        },
        // 5: body instantiates another macro with the parameter twice
        MDef { name: "Outer", params: &["X"], ty: Ty::V, alts: vec![MAlt { cond: None, body: vec![(Bind::Name("p"), SS::Mac(1, vec![p(0), p(0)]))], action: "V::n(64, vec![p.v()])" }] },
        // 6: conditional and unconditional alternatives interleaved
        MDef {
            name: "Mix",
            params: &["X"],
            ty: Ty::V,
            alts: vec![
                MAlt { cond: Some((0, Op::Eq, "a")), body: vec![(Bind::Name("x"), p(0)), (Bind::No, SS::T(2))], action: "V::n(70, vec![x.v()])" },
                MAlt { cond: None, body: vec![(Bind::No, SS::T(3)), (Bind::Name("x"), p(0))], action: "V::n(71, vec![x.v()])" },
                MAlt { cond: Some((0, Op::Ne, "a")), body: vec![(Bind::Name("x"), p(0)), (Bind::No, SS::T(3)), (Bind::No, SS::T(3))], action: "V::n(72, vec![x.v()])" },
                MAlt { cond: None, body: vec![(Bind::No, SS::T(2)), (Bind::No, SS::T(2)), (Bind::Name("x"), p(0))], action: "V::n(73, vec![x.v()])" },
            ],
        },
        // 7: the parameter has the name of a bare terminal of the extern block: inside the body the
        // name denotes the parameter
        MDef { name: "Shadow", params: &["ID"], ty: Ty::V, alts: vec![MAlt { cond: None, body: vec![(Bind::No, SS::T(2)), (Bind::Name("x"), p(0)), (Bind::No, SS::T(2))], action: "V::n(74, vec![x.v()])" }] },
    ]
}

fn subst(s: &SS, args: &[SS]) -> SS {
    match s {
        SS::Par(i) => args[*i as usize].clone(),
        SS::Star(x) => SS::Star(Box::new(subst(x, args))),
        SS::Plus(x) => SS::Plus(Box::new(subst(x, args))),
        SS::Opt(x) => SS::Opt(Box::new(subst(x, args))),
        SS::Grp(v) => SS::Grp(v.iter().map(|(c, x)| (*c, subst(x, args))).collect()),
        SS::Mac(m, a) => SS::Mac(*m, a.iter().map(|x| subst(x, args)).collect()),
        x => x.clone(),
    }
}

fn show(s: &SS, lib: &[MDef], params: &[&str]) -> String {
    match s {
        SS::T(t) => format!("\"{}\"", TNAMES[*t as usize]),
        SS::A => "A".into(),
        SS::Bang => "!".into(),
        SS::ErrNt => "error".into(),
        SS::Bare => "ID".into(),
        SS::Star(x) => format!("{}*", show(x, lib, params)),
        SS::Plus(x) => format!("{}+", show(x, lib, params)),
        SS::Opt(x) => format!("{}?", show(x, lib, params)),
        SS::Grp(v) => format!("({})", v.iter().map(|(c, x)| if *c { format!("<{}>", show(x, lib, params)) } else { show(x, lib, params) }).collect::<Vec<_>>().join(" ")),
        SS::Mac(m, a) => format!("{}<{}>", lib[*m as usize].name, a.iter().map(|x| show(x, lib, params)).collect::<Vec<_>>().join(", ")),
        SS::Par(i) => params[*i as usize].to_string(),
    }
}

fn macros_used(s: &SS, lib: &[MDef], out: &mut Vec<u8>) {
    match s {
        SS::Star(x) | SS::Plus(x) | SS::Opt(x) => macros_used(x, lib, out),
        SS::Grp(v) => v.iter().for_each(|(_, x)| macros_used(x, lib, out)),
        SS::Mac(m, a) => {
            if !out.contains(m) {
                out.push(*m);
                for alt in &lib[*m as usize].alts {
                    for (_, b) in &alt.body {
                        macros_used(b, lib, out);
                    }
                }
            }
            a.iter().for_each(|x| macros_used(x, lib, out));
        }
        _ => {}
    }
}

fn uses(s: &SS, what: &SS) -> bool {
    s == what
        || match s {
            SS::Star(x) | SS::Plus(x) | SS::Opt(x) => uses(x, what),
            SS::Grp(v) => v.iter().any(|(_, x)| uses(x, what)),
            SS::Mac(_, a) => a.iter().any(|x| uses(x, what)),
            _ => false,
        }
}

/// a grammar of the family: alternatives of the start symbol, each a list of items with an
/// optional plain terminal before/after
#[derive(Clone, PartialEq, Eq, Hash, Debug, Serialize, Deserialize)]
pub struct SG {
    /// per alternative: symbols; `None` binding = plain terminal separator
    pub alts: Vec<Vec<(bool, SS)>>,
}

struct Desugar<'a> {
    lib: &'a [MDef],
    memo: HashMap<SS, (String, Sym, Ty)>,
    /// LALRPOP text of the fresh nonterminals
    text: String,
    /// CFG alternatives; nonterminal 0 = S, 1 = A, 2 = error (when used), then fresh ones
    cfg: Vec<Vec<Vec<Sym>>>,
    dropped: u64,
    instances: u64,
    /// Err(reason): the family member has no documented expansion (e.g. a condition on a
    /// non-literal argument)
    bad: Option<String>,
}

impl<'a> Desugar<'a> {
    fn fresh(&mut self) -> usize {
        self.cfg.push(vec![]);
        self.cfg.len() - 1
    }
    /// reference (text, CFG symbol, Rust type) of the fresh nonterminal (or atom) for `s`
    fn of(&mut self, s: &SS) -> (String, Sym, Ty) {
        if let Some(r) = self.memo.get(s) {
            return r.clone();
        }
        let r = match s {
            SS::T(t) => (format!("\"{}\"", TNAMES[*t as usize]), Sym::T(*t), Ty::Tok),
            SS::A => ("A".to_string(), Sym::N(1), Ty::V),
            SS::ErrNt => ("error".to_string(), Sym::N(2), Ty::V),
            SS::Bare => ("ID".to_string(), Sym::T(5), Ty::Tok),
            SS::Bang => ("!".to_string(), Sym::Err, Ty::Rec),
            SS::Par(_) => panic!("parameter outside a macro body"),
            SS::Plus(x) => {
                let (xt, xs, xty) = self.of(x);
                let n = self.fresh();
                let name = format!("R{}", n);
                let ty = Ty::Vec(Box::new(xty));
                let _ = writeln!(self.text, "{}: {} = {{ <e:{}> => vec![e], <v:{}> <e:{}> => {{ let mut v = v; v.push(e); v }} }};", name, ty.text(), xt, name, xt);
                self.cfg[n] = vec![vec![xs], vec![Sym::N(n as u8), xs]];
                (name, Sym::N(n as u8), ty)
            }
            SS::Star(x) => {
                let (pt, ps, pty) = self.of(&SS::Plus(x.clone()));
                let n = self.fresh();
                let name = format!("R{}", n);
                let _ = writeln!(self.text, "#[inline] {}: {} = {{ => vec![], <v:{}> => v }};", name, pty.text(), pt);
                self.cfg[n] = vec![vec![], vec![ps]];
                (name, Sym::N(n as u8), pty)
            }
            SS::Opt(x) => {
                let (xt, xs, xty) = self.of(x);
                let n = self.fresh();
                let name = format!("R{}", n);
                let ty = Ty::Opt(Box::new(xty));
                let _ = writeln!(self.text, "#[inline] {}: {} = {{ <e:{}> => Some(e), => None }};", name, ty.text(), xt);
                self.cfg[n] = vec![vec![xs], vec![]];
                (name, Sym::N(n as u8), ty)
            }
            SS::Grp(v) => {
                let refs: Vec<(bool, (String, Sym, Ty))> = v.iter().map(|(c, x)| (*c, self.of(x))).collect();
                let any = refs.iter().any(|(c, _)| *c);
                let n = self.fresh();
                let name = format!("R{}", n);
                let mut items = vec![];
                let mut sel = vec![];
                let mut tys = vec![];
                for (i, (c, (t, _, ty))) in refs.iter().enumerate() {
                    if *c || !any {
                        items.push(format!("<g{}:{}>", i, t));
                        sel.push(format!("g{}", i));
                        tys.push(ty.clone());
                    } else {
                        items.push(t.clone());
                    }
                }
                let (ty, act) = if sel.len() == 1 { (tys[0].clone(), sel[0].clone()) } else if sel.is_empty() { (Ty::Unit, "()".to_string()) } else { (Ty::Tup(tys), format!("({})", sel.join(", "))) };
                let _ = writeln!(self.text, "#[inline] {}: {} = {{ {} => {} }};", name, ty.text(), items.join(" "), act);
                self.cfg[n] = vec![refs.iter().map(|(_, (_, s, _))| *s).collect()];
                (name, Sym::N(n as u8), ty)
            }
            SS::Mac(m, args) => {
                self.instances += 1;
                let lib = self.lib;
                let def = &lib[*m as usize];
                let arefs: Vec<(String, Sym, Ty)> = args.iter().map(|a| self.of(a)).collect();
                let atys: Vec<Ty> = arefs.iter().map(|r| r.2.clone()).collect();
                let n = self.fresh();
                let name = format!("R{}", n);
                let ty = def.ty.subst(&atys);
                let mut alts_text = vec![];
                let mut alts_cfg = vec![];
                for alt in &def.alts {
                    if let Some((pi, op, rhs)) = alt.cond {
                        let SS::T(t) = &args[pi as usize] else {
                            self.bad = Some(format!("condition of {} on a non-literal argument", def.name));
                            continue;
                        };
                        let lhs = TNAMES[*t as usize];
                        let re = regex::Regex::new(rhs).unwrap();
                        let holds = match op {
                            Op::Eq => lhs == rhs,
                            Op::Ne => lhs != rhs,
                            Op::Match => re.is_match(lhs),
                            Op::NotMatch => !re.is_match(lhs),
                        };
                        if !holds {
                            self.dropped += 1;
                            continue;
                        }
                    }
                    let mut items = vec![];
                    let mut syms = vec![];
                    for (b, s) in &alt.body {
                        let (t, sy, _) = self.of(&subst(s, args));
                        syms.push(sy);
                        items.push(match b {
                            Bind::No => t,
                            Bind::Name(nm) => format!("<{}:{}>", nm, t),
                            Bind::Mut(nm) => format!("<mut {}:{}>", nm, t),
                        });
                    }
                    alts_text.push(format!("{} => {}", items.join(" "), alt.action));
                    alts_cfg.push(syms);
                }
                let _ = writeln!(self.text, "{}: {} = {{ {} }};", name, ty.text(), alts_text.join(", "));
                self.cfg[n] = alts_cfg;
                (name, Sym::N(n as u8), ty)
            }
        };
        self.memo.insert(s.clone(), r.clone());
        r
    }
}

pub struct Rendered {
    pub sugared: String,
    pub desugared: String,
    pub cfg: Cfg,
    pub dropped: u64,
    pub instances: u64,
    pub bad: Option<String>,
}

impl SG {
    fn all_items(&self) -> Vec<&SS> {
        self.alts.iter().flatten().map(|(_, s)| s).collect()
    }
    pub fn describe(&self, lib: &[MDef]) -> String {
        self.alts.iter().map(|a| a.iter().map(|(_, s)| show(s, lib, &[])).collect::<Vec<_>>().join(" ")).collect::<Vec<_>>().join(" | ")
    }

    fn render(&self, cg: Codegen) -> Rendered {
        let lib = library();
        let uses_err = self.all_items().iter().any(|s| uses(s, &SS::ErrNt));
        let header = |s: &mut String| {
            s.push_str("use super::{Tok, V, ToV};\n");
            if cg == Codegen::Ascent {
                s.push_str("#[recursive_ascent]\n");
            }
            s.push_str("grammar;\n");
            s.push_str("extern {\n    type Location = usize;\n    type Error = String;\n    enum Tok {\n        \"a\" => Tok::T0,\n        \"b\" => Tok::T1,\n        \"c\" => Tok::T2,\n        \"d\" => Tok::T3,\n        \"e\" => Tok::T4,\n        ID => Tok::T5,\n    }\n}\n");
            s.push_str("A: V = { \"d\" => V::n(50, vec![]) };\n");
            if uses_err {
                s.push_str("error: V = { \"d\" \"d\" => V::n(51, vec![]) };\n");
            }
        };
        // sugared
        let mut sug = String::new();
        header(&mut sug);
        let mut used = vec![];
        for s in self.all_items() {
            macros_used(s, &lib, &mut used);
        }
        used.sort();
        for m in &used {
            let d = &lib[*m as usize];
            let _ = writeln!(sug, "{}<{}>: {} = {{", d.name, d.params.join(", "), d.ty.text_params(d.params));
            for alt in &d.alts {
                let items: Vec<String> = alt
                    .body
                    .iter()
                    .map(|(b, s)| {
                        let t = show(s, &lib, d.params);
                        match b {
                            Bind::No => t,
                            Bind::Name(n) => format!("<{}:{}>", n, t),
                            Bind::Mut(n) => format!("<mut {}:{}>", n, t),
                        }
                    })
                    .collect();
                let cond = alt.cond.map(|(p, op, rhs)| format!(" if {} {} \"{}\"", d.params[p as usize], op.text(), rhs)).unwrap_or_default();
                let _ = writeln!(sug, "    {}{} => {},", items.join(" "), cond, alt.action);
            }
            sug.push_str("};\n");
        }
        sug.push_str("pub S: V = {\n");
        for (ai, a) in self.alts.iter().enumerate() {
            let mut items = vec![];
            let mut names = vec![];
            for (i, (bound, s)) in a.iter().enumerate() {
                if *bound {
                    items.push(format!("<s{}:{}>", i, show(s, &lib, &[])));
                    names.push(format!("s{}.v()", i));
                } else {
                    items.push(show(s, &lib, &[]));
                }
            }
            let _ = writeln!(sug, "    {} => V::n({}, vec![{}]),", items.join(" "), ai, names.join(", "));
        }
        sug.push_str("};\n");
        // desugared
        let mut d = Desugar { lib: &lib, memo: HashMap::new(), text: String::new(), cfg: vec![vec![], vec![vec![Sym::T(3)]], vec![vec![Sym::T(3), Sym::T(3)]]], dropped: 0, instances: 0, bad: None };
        let mut s_text = String::from("pub S: V = {\n");
        let mut s_alts = vec![];
        for (ai, a) in self.alts.iter().enumerate() {
            let mut items = vec![];
            let mut names = vec![];
            let mut syms = vec![];
            for (i, (bound, s)) in a.iter().enumerate() {
                let (t, sy, _) = d.of(s);
                syms.push(sy);
                if *bound {
                    items.push(format!("<s{}:{}>", i, t));
                    names.push(format!("s{}.v()", i));
                } else {
                    items.push(t);
                }
            }
            let _ = writeln!(s_text, "    {} => V::n({}, vec![{}]),", items.join(" "), ai, names.join(", "));
            s_alts.push(syms);
        }
        s_text.push_str("};\n");
        d.cfg[0] = s_alts;
        let mut des = String::new();
        header(&mut des);
        des.push_str(&d.text);
        des.push_str(&s_text);
        let cfg = Cfg { nts: d.cfg.len(), terms: 6, alts: d.cfg, pubs: vec![0] };
        Rendered { sugared: sug, desugared: des, cfg, dropped: d.dropped, instances: d.instances, bad: d.bad }
    }
}

// ---------------------------------------------------------------------------------------
// the family

fn menu(thorough: bool) -> Vec<SS> {
    let b = |x: &SS| Box::new(x.clone());
    let atoms = vec![SS::T(0), SS::T(1), SS::A];
    let mut m: Vec<SS> = atoms.clone();
    for a in &atoms {
        m.push(SS::Star(b(a)));
        m.push(SS::Plus(b(a)));
        m.push(SS::Opt(b(a)));
    }
    let mut groups = vec![];
    for x in &atoms {
        for y in &atoms {
            for mask in 0..4 {
                groups.push(SS::Grp(vec![(mask & 1 != 0, x.clone()), (mask & 2 != 0, y.clone())]));
            }
        }
    }
    m.extend(groups.iter().cloned());
    // repetitions of groups (selection masks none / first / both)
    for g in &groups {
        let SS::Grp(v) = g else { unreachable!() };
        let mask = (v[0].0 as u8) | ((v[1].0 as u8) << 1);
        if mask == 2 || (!thorough && v[0].1 == v[1].1) {
            continue;
        }
        m.push(SS::Star(b(g)));
        m.push(SS::Plus(b(g)));
        m.push(SS::Opt(b(g)));
    }
    // a three-element group and a nested group
    m.push(SS::Grp(vec![(true, SS::T(0)), (false, SS::T(1)), (true, SS::A)]));
    m.push(SS::Grp(vec![(true, SS::Grp(vec![(false, SS::T(0)), (true, SS::T(1))])), (true, SS::A)]));
    m.push(SS::Opt(b(&SS::Plus(b(&SS::T(0))))));
    m.push(SS::Star(b(&SS::Opt(b(&SS::T(0)))))); // ambiguous: must be rejected on both sides
    // macro uses
    let lit = vec![SS::T(0), SS::T(1), SS::T(2)];
    for a in atoms.iter().chain([SS::T(2)].iter()) {
        m.push(SS::Mac(0, vec![a.clone()]));
        m.push(SS::Mac(3, vec![a.clone()]));
        m.push(SS::Mac(4, vec![a.clone()]));
        m.push(SS::Mac(5, vec![a.clone()]));
    }
    for a in &lit {
        m.push(SS::Mac(2, vec![a.clone()]));
    }
    m.push(SS::Mac(2, vec![SS::A])); // condition on a non-literal: diagnostic expected
    for a in &lit {
        m.push(SS::Mac(6, vec![a.clone()]));
    }
    for a in [SS::T(0), SS::A, SS::Bare, SS::Star(b(&SS::T(1)))] {
        m.push(SS::Mac(7, vec![a.clone()]));
    }
    m.push(SS::Bare);
    m.push(SS::Star(b(&SS::Bare)));
    for x in &atoms {
        for y in &atoms {
            m.push(SS::Mac(1, vec![x.clone(), y.clone()]));
        }
    }
    // nested / complex arguments
    let g01 = SS::Grp(vec![(false, SS::T(0)), (false, SS::T(1))]);
    let g01s = SS::Grp(vec![(true, SS::T(0)), (false, SS::T(1))]);
    for arg in [SS::Star(b(&SS::T(0))), SS::Opt(b(&SS::A)), g01.clone(), g01s.clone(), SS::Mac(1, vec![SS::T(0), SS::T(1)]), SS::Mac(0, vec![SS::T(0)]), SS::Mac(2, vec![SS::T(1)])] {
        m.push(SS::Mac(0, vec![arg.clone()]));
        m.push(SS::Mac(3, vec![arg.clone()]));
        m.push(SS::Mac(1, vec![arg.clone(), SS::T(1)]));
        m.push(SS::Mac(1, vec![SS::T(1), arg.clone()]));
        if thorough {
            m.push(SS::Mac(4, vec![arg.clone()]));
            m.push(SS::Mac(5, vec![arg.clone()]));
        }
    }
    m.push(SS::Star(b(&SS::Mac(1, vec![SS::T(0), SS::T(1)]))));
    m.push(SS::Opt(b(&SS::Mac(2, vec![SS::T(0)]))));
    m.push(SS::Plus(b(&SS::Mac(2, vec![SS::T(2)]))));
    m
}

fn family(thorough: bool, f: &mut dyn FnMut(&str, SG)) {
    let m = menu(thorough);
    // single item, alone and between terminals
    for s in &m {
        f("single", SG { alts: vec![vec![(true, s.clone())]] });
        f("single-ctx", SG { alts: vec![vec![(false, SS::T(2)), (true, s.clone()), (false, SS::T(2))]] });
    }
    // pairs separated by a terminal: every ordered pair of "interesting" items (macro uses and
    // repetitions of groups; thorough: the whole menu)
    let interesting: Vec<&SS> = m.iter().filter(|s| thorough || matches!(s, SS::Mac(..)) || matches!(s, SS::Star(x) | SS::Plus(x) | SS::Opt(x) if matches!(**x, SS::Grp(_) | SS::Mac(..)))).collect();
    for x in &interesting {
        for y in &interesting {
            f("pair", SG { alts: vec![vec![(true, (*x).clone()), (false, SS::T(2)), (true, (*y).clone())]] });
        }
    }
    // two alternatives distinguished by a leading terminal
    for (i, x) in m.iter().enumerate() {
        let y = &m[(i * 7 + 3) % m.len()];
        f("two-alts", SG { alts: vec![vec![(false, SS::T(2)), (true, x.clone())], vec![(false, SS::T(3)), (true, y.clone()), (false, SS::T(2))]] });
    }
    // printed-form collision candidates
    let b = |x: SS| Box::new(x);
    f("collision", SG { alts: vec![vec![(true, SS::Star(b(SS::ErrNt))), (false, SS::T(SEP)), (true, SS::Star(b(SS::Bang)))]] });
    f("collision", SG { alts: vec![vec![(true, SS::Opt(b(SS::Bang))), (false, SS::T(SEP)), (true, SS::Opt(b(SS::ErrNt)))]] });
    f("collision", SG { alts: vec![vec![(true, SS::Mac(3, vec![SS::Bang])), (false, SS::T(SEP)), (true, SS::Mac(3, vec![SS::ErrNt]))]] });
    f("collision", SG { alts: vec![vec![(true, SS::Grp(vec![(false, SS::T(0)), (false, SS::T(1))])), (false, SS::T(SEP)), (true, SS::Grp(vec![(true, SS::T(0)), (false, SS::T(1))])), (false, SS::T(SEP)), (true, SS::Grp(vec![(true, SS::T(0)), (true, SS::T(1))]))]] });
    f("collision", SG { alts: vec![vec![(true, SS::Star(b(SS::Opt(b(SS::T(0)))))), (false, SS::T(SEP)), (true, SS::Opt(b(SS::Star(b(SS::T(0))))))]] });
}

// ---------------------------------------------------------------------------------------

struct Accepted {
    sg: SG,
    inputs: Vec<Vec<u8>>,
    uses_bang: bool,
}

fn run(ctx: &mut Ctx) {
    let dir = drv::scratch_sub(&ctx.scratch.clone(), "c13");
    let thorough = ctx.tier == Tier::Thorough;
    let n = ctx.tier.pick(5, 6);
    crate::fw::CASE_BUDGET_MS.store(600_000, std::sync::atomic::Ordering::SeqCst);
    let lib = library();
    if let Some(case) = ctx.replay.clone() {
        let sg: SG = serde_json::from_value(case["sg"].clone()).expect("sg");
        let only: Option<Vec<u8>> = serde_json::from_value(case["input"].clone()).ok();
        let mut acc = vec![];
        explore_one(ctx, &dir, &lib, "replay", &sg, n.max(only.as_ref().map(|v| v.len()).unwrap_or(0)), &mut acc);
        if let (Some(o), Some(a)) = (only, acc.first_mut()) {
            a.inputs = vec![o];
        }
        compiled(ctx, &dir, &lib, &acc);
        return;
    }
    let mut idx = 0u64;
    let mut mine: Vec<(String, SG)> = vec![];
    family(thorough, &mut |fam, sg| {
        if ctx.mine(idx) {
            mine.push((fam.to_string(), sg));
        }
        idx += 1;
    });
    ctx.note("bounds", json!({"n": n, "grammars_total": idx, "menu": menu(thorough).len()}));
    let mut all_acc: Vec<Accepted> = vec![];
    let mut forced: Vec<Accepted> = vec![];
    for (k, (fam, sg)) in mine.iter().enumerate() {
        let case_idx = k as u64 * ctx.nshards as u64 + ctx.shard as u64;
        if !ctx.begin_case(case_idx) {
            continue;
        }
        ctx.case_detail(&json!({"sg": sg}));
        let mut local = vec![];
        explore_one(ctx, &dir, &lib, fam, sg, n, &mut local);
        if fam == "collision" {
            forced.extend(local);
        } else {
            all_acc.extend(local);
        }
        ctx.end_case();
    }
    // compiled sub-corpus: seed-rotated spread + every collision candidate
    let want = ctx.tier.pick(5, 80);
    let stride = (all_acc.len() / want).max(1);
    let off = (ctx.seed as usize) % stride;
    let mut acc: Vec<Accepted> = all_acc.into_iter().enumerate().filter(|(j, _)| j % stride == off).map(|(_, a)| a).take(want + 1).collect();
    acc.extend(forced);
    let mut start = 0;
    let mut ci = 0u64;
    while start < acc.len() {
        let end = (start + 16).min(acc.len());
        let idx = 10_000_000 + ci * ctx.nshards as u64 + ctx.shard as u64;
        ci += 1;
        if ctx.begin_case(idx) {
            compiled(ctx, &dir, &lib, &acc[start..end]);
            ctx.end_case();
        }
        start = end;
    }
}

fn explore_one(ctx: &mut Ctx, dir: &std::path::Path, lib: &[MDef], fam: &str, sg: &SG, n: usize, acc: &mut Vec<Accepted>) {
    ctx.count("grammars");
    let r = sg.render(Codegen::Table);
    let uses_bang = sg.all_items().iter().any(|s| uses(s, &SS::Bang));
    let out = drv::generate_in(dir, r.sugared.as_bytes(), &GenOpts::algo(Algo::Lane));
    ctx.count("generations");
    if let Some(p) = &out.panic {
        ctx.violation("macro-expansion-panics", format!("{}: {}", sg.describe(lib), p), json!({"sg": sg, "grammar": r.sugared, "panic": p}));
        return;
    }
    if let Some(why) = &r.bad {
        ctx.count("undocumented_use");
        if out.ok {
            ctx.violation("condition-on-non-literal-accepted", format!("{}: {} but LALRPOP generated a parser", sg.describe(lib), why), json!({"sg": sg, "grammar": r.sugared}));
        }
        return;
    }
    let dout = drv::generate_in(dir, r.desugared.as_bytes(), &GenOpts::algo(Algo::Lane));
    ctx.count("generations");
    if !dout.ok && dout.class() != drv::DiagClass::LrConflict {
        ctx.machinery(format!("hand-desugared grammar rejected for another reason than a conflict: {} :: {}", dout.diag.lines().find(|l| l.contains("error")).unwrap_or(""), r.desugared.replace('\n', " ")));
        return;
    }
    if out.ok != dout.ok {
        ctx.violation(
            if out.ok { "sugared-accepted-desugared-conflicts" } else { "sugared-rejected-desugared-accepted" },
            format!("{}: LALRPOP {} the sugared grammar but {} the substituted one ({})", sg.describe(lib), if out.ok { "accepts" } else { "rejects" }, if dout.ok { "accepts" } else { "rejects" }, out.diag.lines().find(|l| l.contains("error")).unwrap_or("")),
            json!({"sg": sg, "grammar": r.sugared, "desugared": r.desugared, "diag": out.diag.lines().take(8).collect::<Vec<_>>()}),
        );
        return;
    }
    if !out.ok {
        ctx.count("grammars_rejected_both");
        return;
    }
    ctx.count("grammars_accepted");
    ctx.add("cond_alternatives_dropped", r.dropped);
    ctx.add("macro_instances", r.instances);
    if fam == "pair" {
        if let (SS::Mac(a, x), SS::Mac(b, y)) = (&sg.alts[0][0].1, &sg.alts[0][2].1) {
            if a == b && x != y {
                ctx.count("distinct_instantiation_pairs");
            }
        }
    }
    if sg.all_items().iter().any(|s| matches!(s, SS::Star(x) | SS::Plus(x) | SS::Opt(x) if matches!(**x, SS::Grp(_)))) {
        ctx.count("repeat_of_group");
    }
    let mut keep: Vec<Vec<u8>> = vec![];
    if uses_bang {
        // error recovery: no plain language; judged on the compiled pair only
        for inp in lang::all_inputs(5, 3) {
            if inp.iter().all(|t| *t == 3 || *t == 4 || *t == 0) {
                keep.push(inp);
            }
        }
        acc.push(Accepted { sg: sg.clone(), inputs: keep, uses_bang });
        return;
    }
    let lifted = match lift::lift(out.rs.as_ref().unwrap()) {
        Ok(l) if l.parsers.len() == 1 => l,
        Ok(l) => {
            ctx.machinery(format!("lifter found {} parsers: {}", l.parsers.len(), sg.describe(lib)));
            return;
        }
        Err(e) => {
            ctx.machinery(format!("lifter: {} for {}", e, sg.describe(lib)));
            return;
        }
    };
    let t = &lifted.parsers[0];
    let nk = 6usize;
    let tok_idx = implt::extern_tok_idx(t, nk);
    let stats = implt::new_stats(false);
    let lang = Lang::new(&r.cfg, n + 1);
    let mut rejected_kept = 0;
    let mut stack: Vec<Vec<u8>> = vec![vec![]];
    while let Some(inp) = stack.pop() {
        let s = lang::from_slice(&inp);
        if lang.viable(0, s) && inp.len() < n {
            for k in (0..nk as u8).rev() {
                let mut x = inp.clone();
                x.push(k);
                stack.push(x);
            }
        }
        if inp.iter().any(|k| tok_idx[*k as usize].is_none()) {
            // a terminal the grammar never uses: the generated parser has no index for it
            continue;
        }
        let member = lang.accepts(0, s);
        let run = implt::run_tokens(t, &tok_idx, &implt::gapped(&inp), &stats);
        ctx.count("parses");
        let istr: String = inp.iter().map(|k| TNAMES[*k as usize]).collect::<Vec<_>>().join(" ");
        let case = |what: &str| json!({"sg": sg, "grammar": r.sugared, "desugared": r.desugared, "input": inp, "observed": what, "engine": "implt"});
        match (&run.outcome, member) {
            (Outcome::Ok(_), true) => {
                ctx.count("accepted");
                if inp.len() >= 2 {
                    ctx.count("accepted_nontrivial");
                }
                if keep.len() < 30 {
                    keep.push(inp.clone());
                }
                if ctx.p.samples.len() < 3 && inp.len() >= 4 && r.instances >= 2 {
                    ctx.sample(json!({"sugared": sg.describe(lib), "input": istr, "accepted": true}));
                }
            }
            (Outcome::Ok(_), false) => ctx.violation("accepts-nonsentence-of-substituted-grammar", format!("{} accepts `{}`", sg.describe(lib), istr), case("Ok")),
            (Outcome::Panic(p), _) => ctx.violation("parser-panics", format!("{} on `{}`: {}", sg.describe(lib), istr, p), case(p)),
            (_, true) => ctx.violation("rejects-sentence-of-substituted-grammar", format!("{} rejects `{}`", sg.describe(lib), istr), case("Err")),
            (_, false) => {
                ctx.count("rejected");
                if rejected_kept < 3 && !inp.is_empty() {
                    rejected_kept += 1;
                    keep.push(inp.clone());
                }
            }
        }
    }
    acc.push(Accepted { sg: sg.clone(), inputs: keep, uses_bang });
}

/// (the container impls of ToV now live in dg::V_PRELUDE)
pub const EXTRA_TOV: &str = "";

fn compiled(ctx: &mut Ctx, dir: &std::path::Path, lib: &[MDef], items: &[Accepted]) {
    if items.is_empty() {
        return;
    }
    let env = match implr::rustc_env() {
        Ok(e) => e,
        Err(e) => {
            ctx.machinery(e);
            return;
        }
    };
    let gdir = drv::scratch_sub(dir, "rgen");
    let mut units = vec![];
    let mut meta: Vec<(usize, Codegen, bool)> = vec![]; // (item, codegen, is_desugared)
    for (ii, it) in items.iter().enumerate() {
        let backends: Vec<Codegen> = if it.uses_bang { vec![Codegen::Table] } else { vec![Codegen::Table, Codegen::Ascent] };
        for cg in backends {
            let r = it.sg.render(cg);
            for (is_des, text) in [(false, &r.sugared), (true, &r.desugared)] {
                if is_des && cg == Codegen::Ascent {
                    continue;
                }
                let out = drv::generate_in(&gdir, text.as_bytes(), &GenOpts::algo(Algo::Lane));
                ctx.count("generations");
                if !out.ok {
                    ctx.machinery(format!("grammar accepted before is rejected now [{} {}]: {}", cg.name(), if is_des { "desugared" } else { "sugared" }, it.sg.describe(lib)));
                    continue;
                }
                let glue = "pub fn run(_entry: usize, input: &str) -> String { let t = counting(toks(input).into_iter()); render(SParser::new().parse(t).map(|v| v.show())) }\n".to_string();
                units.push(implr::Unit { rs: out.rs.unwrap(), glue });
                meta.push((ii, cg, is_des));
            }
        }
    }
    let bdir = dir.join("rbuild");
    let _ = std::fs::remove_dir_all(&bdir);
    let extra = format!("{}{}", dg::V_PRELUDE, EXTRA_TOV);
    let built = match implr::build(&env, &bdir, &units, &extra) {
        Ok(b) => b,
        Err(e) => {
            ctx.machinery(format!("implr build: {}", e));
            return;
        }
    };
    for (i, e) in built.unit_errors.iter().enumerate() {
        if let Some(e) = e {
            let (ii, cg, is_des) = meta[i];
            if is_des {
                ctx.machinery(format!("hand-desugared grammar does not compile: {} :: {}", e, items[ii].sg.describe(lib)));
            } else {
                ctx.violation("sugared-grammar-does-not-compile", format!("{} [{}]: {}", items[ii].sg.describe(lib), cg.name(), e), json!({"sg": items[ii].sg, "grammar": items[ii].sg.render(cg).sugared, "rustc": e}));
            }
        }
    }
    let mut jobs = vec![];
    let mut jm = vec![];
    for (u, (ii, _, _)) in meta.iter().enumerate() {
        for inp in &items[*ii].inputs {
            jobs.push(implr::Job { unit: u, entry: 0, input: crate::obs::input_string(inp) });
            jm.push((u, inp.clone()));
        }
    }
    let res = implr::run(&built, &jobs, 60_000);
    let _ = std::fs::remove_dir_all(&bdir);
    let mut by: HashMap<(usize, Vec<u8>), Obs> = HashMap::new();
    for ((u, inp), v) in jm.iter().zip(res.iter()) {
        by.insert((*u, inp.clone()), Obs::from_json(v));
    }
    for (u, (ii, cg, is_des)) in meta.iter().enumerate() {
        if *is_des {
            continue;
        }
        let Some(du) = meta.iter().position(|(i2, _, d)| i2 == ii && *d) else { continue };
        for inp in &items[*ii].inputs {
            let (Some(o), Some(d)) = (by.get(&(u, inp.clone())), by.get(&(du, inp.clone()))) else { continue };
            if o.kind == "Uncompiled" || d.kind == "Uncompiled" {
                continue;
            }
            ctx.count("parses");
            ctx.count("implr_parses");
            ctx.count("implr_pairs_compared");
            let istr: String = inp.iter().map(|k| TNAMES[*k as usize]).collect::<Vec<_>>().join(" ");
            let sg = &items[*ii].sg;
            let case = json!({"sg": sg, "grammar": sg.render(*cg).sugared, "desugared": sg.render(*cg).desugared, "codegen": cg.name(), "input": inp, "sugared_result": o, "desugared_result": d, "engine": "implr"});
            if o.is_abnormal() {
                ctx.violation(&format!("{}-{}", cg.name(), o.kind.to_lowercase()), format!("{} on `{}`: {}", sg.describe(lib), istr, o.short()), case);
                continue;
            }
            if d.is_abnormal() {
                ctx.machinery(format!("desugared parser abnormal on `{}`: {} :: {}", istr, d.short(), sg.describe(lib)));
                continue;
            }
            let same = if o.is_ok() || d.is_ok() { o.is_ok() == d.is_ok() && o.value == d.value } else { o.kind == d.kind && o.token == d.token && o.location == d.location && o.user == d.user };
            if !same {
                let class = if o.is_ok() && d.is_ok() { format!("{}-wrong-value", cg.name()) } else { format!("{}-different-outcome", cg.name()) };
                ctx.violation(&class, format!("{} on `{}`: sugared {} / substituted {}", sg.describe(lib), istr, o.short(), d.short()), case);
            } else if o.is_ok() {
                ctx.count("implr_values_equal");
                if ctx.p.samples.len() < 3 && inp.len() >= 3 {
                    ctx.sample(json!({"sugared": sg.describe(lib), "input": istr, "value": o.value}));
                }
            }
        }
    }
}
