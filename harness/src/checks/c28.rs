//! C28 ParseError helpers: exhaustive small-domain product against a 20-line reference.

use crate::fw::{CheckDef, Ctx};
use lalrpop_util::ParseError;
use serde_json::json;
use std::cell::RefCell;

pub fn def() -> CheckDef {
    CheckDef {
        id: "C28",
        level: "exploration",
        rule: "all ParseError<L,T,E> with L in {0,1,2}, T in {a,b}, E in {x,y}, expected lists of length 0..4 over {p,q,r} (all sequences), each through map_location/map_token/map_error with injective non-identity functions and call-recording closures, Display, From<E>; a case is non-trivial when it has a token span or a non-empty expected list; every case is distinct by construction",
        evaluations: "evaluations",
        nontrivial: "nontrivial",
        mc: None,
        require: &["evaluations", "with_expected", "with_span"],
        exhaustive: true,
        assumptions: &["the documented Display forms are the ones in the doc comments of lalrpop-util/src/lib.rs"],
        shards: 1,
        run,
        crash_class: Some("panic"),
    }
}

type PE = ParseError<u32, char, char>;

fn ref_display(e: &PE) -> String {
    let exp = |v: &Vec<String>| -> String {
        let mut s = String::new();
        if !v.is_empty() {
            s.push_str("\nExpected one of ");
            for (i, x) in v.iter().enumerate() {
                if i > 0 {
                    s.push_str(if i == v.len() - 1 { " or " } else { ", " });
                }
                s.push_str(x);
            }
        }
        s
    };
    match e {
        ParseError::InvalidToken { location } => format!("Invalid token at {}", location),
        ParseError::UnrecognizedEof { location, expected } => format!("Unrecognized EOF found at {}{}", location, exp(expected)),
        ParseError::UnrecognizedToken { token, expected } => format!("Unrecognized token `{}` found at {}:{}{}", token.1, token.0, token.2, exp(expected)),
        ParseError::ExtraToken { token } => format!("Extra token {} found at {}:{}", token.1, token.0, token.2),
        ParseError::User { error } => format!("{}", error),
    }
}

fn ref_map(e: &PE, lf: impl Fn(u32) -> u64, tf: impl Fn(char) -> String, ef: impl Fn(char) -> String) -> ParseError<u64, String, String> {
    match e.clone() {
        ParseError::InvalidToken { location } => ParseError::InvalidToken { location: lf(location) },
        ParseError::UnrecognizedEof { location, expected } => ParseError::UnrecognizedEof { location: lf(location), expected },
        ParseError::UnrecognizedToken { token, expected } => ParseError::UnrecognizedToken { token: (lf(token.0), tf(token.1), lf(token.2)), expected },
        ParseError::ExtraToken { token } => ParseError::ExtraToken { token: (lf(token.0), tf(token.1), lf(token.2)) },
        ParseError::User { error } => ParseError::User { error: ef(error) },
    }
}

fn run(ctx: &mut Ctx) {
    let locs = [0u32, 1, 2];
    let toks = ['a', 'b'];
    let errs = ['x', 'y'];
    // expected lists: all sequences over {p,q,r} of length 0..=4
    let mut lists: Vec<Vec<String>> = vec![vec![]];
    let mut layer: Vec<Vec<String>> = vec![vec![]];
    for _ in 0..4 {
        let mut nl = vec![];
        for l in &layer {
            for s in ["p", "q", "r"] {
                let mut x = l.clone();
                x.push(s.to_string());
                nl.push(x);
            }
        }
        lists.extend(nl.iter().cloned());
        layer = nl;
    }
    let mut cases: Vec<PE> = vec![];
    for &l in &locs {
        cases.push(ParseError::InvalidToken { location: l });
        for ex in &lists {
            cases.push(ParseError::UnrecognizedEof { location: l, expected: ex.clone() });
        }
        for &r in &locs {
            for &t in &toks {
                cases.push(ParseError::ExtraToken { token: (l, t, r) });
                for ex in &lists {
                    cases.push(ParseError::UnrecognizedToken { token: (l, t, r), expected: ex.clone() });
                }
            }
        }
    }
    for &e in &errs {
        cases.push(ParseError::User { error: e });
    }
    let lf = |x: u32| (x as u64) * 7 + 100;
    let tf = |c: char| format!("tok-{}", c);
    let ef = |c: char| format!("err-{}", c);
    for (i, e) in cases.iter().enumerate() {
        if !ctx.begin_case(i as u64) {
            continue;
        }
        ctx.count("evaluations");
        let has_span = matches!(e, ParseError::UnrecognizedToken { .. } | ParseError::ExtraToken { .. });
        let has_exp = matches!(e, ParseError::UnrecognizedToken { expected, .. } | ParseError::UnrecognizedEof { expected, .. } if !expected.is_empty());
        if has_span {
            ctx.count("with_span");
        }
        if has_exp {
            ctx.count("with_expected");
        }
        if has_span || has_exp {
            ctx.count("nontrivial");
        }
        if i % 977 == 0 {
            ctx.sample(json!({"value": format!("{:?}", e), "display": format!("{}", e)}));
        }
        let mut bad: Vec<(String, String, String)> = vec![];
        // Display
        let d = format!("{}", e);
        let rd = ref_display(e);
        if d != rd {
            bad.push(("display".into(), rd, d));
        }
        // map_location: applied to every location, in order start then end; others untouched
        let calls = RefCell::new(vec![]);
        let m = e.clone().map_location(|l| {
            calls.borrow_mut().push(l);
            lf(l)
        });
        let want = ref_map(e, lf, |c| c.to_string(), |c| c.to_string());
        let got = ref_map_id(&m);
        if got != want {
            bad.push(("map_location".into(), format!("{:?}", want), format!("{:?}", got)));
        }
        let want_calls: Vec<u32> = match e {
            ParseError::InvalidToken { location } | ParseError::UnrecognizedEof { location, .. } => vec![*location],
            ParseError::UnrecognizedToken { token, .. } | ParseError::ExtraToken { token } => vec![token.0, token.2],
            ParseError::User { .. } => vec![],
        };
        let mut got_calls = calls.borrow().clone();
        got_calls.sort();
        let mut wc = want_calls.clone();
        wc.sort();
        if got_calls != wc {
            bad.push(("map_location-calls".into(), format!("{:?}", wc), format!("{:?}", got_calls)));
        }
        // map_token
        let tcalls = RefCell::new(0);
        let m = e.clone().map_token(|t| {
            *tcalls.borrow_mut() += 1;
            tf(t)
        });
        let want = ref_map(e, |l| l as u64, tf, |c| c.to_string());
        let got = match m {
            ParseError::InvalidToken { location } => ParseError::InvalidToken { location: location as u64 },
            ParseError::UnrecognizedEof { location, expected } => ParseError::UnrecognizedEof { location: location as u64, expected },
            ParseError::UnrecognizedToken { token, expected } => ParseError::UnrecognizedToken { token: (token.0 as u64, token.1, token.2 as u64), expected },
            ParseError::ExtraToken { token } => ParseError::ExtraToken { token: (token.0 as u64, token.1, token.2 as u64) },
            ParseError::User { error } => ParseError::User { error: error.to_string() },
        };
        if got != want {
            bad.push(("map_token".into(), format!("{:?}", want), format!("{:?}", got)));
        }
        if *tcalls.borrow() != if has_span { 1 } else { 0 } {
            bad.push(("map_token-calls".into(), format!("{}", has_span as u32), format!("{}", tcalls.borrow())));
        }
        // map_error
        let m = e.clone().map_error(ef);
        let want = ref_map(e, |l| l as u64, |c| c.to_string(), ef);
        let got = match m {
            ParseError::InvalidToken { location } => ParseError::InvalidToken { location: location as u64 },
            ParseError::UnrecognizedEof { location, expected } => ParseError::UnrecognizedEof { location: location as u64, expected },
            ParseError::UnrecognizedToken { token, expected } => ParseError::UnrecognizedToken { token: (token.0 as u64, token.1.to_string(), token.2 as u64), expected },
            ParseError::ExtraToken { token } => ParseError::ExtraToken { token: (token.0 as u64, token.1.to_string(), token.2 as u64) },
            ParseError::User { error } => ParseError::User { error },
        };
        if got != want {
            bad.push(("map_error".into(), format!("{:?}", want), format!("{:?}", got)));
        }
        for (what, want, got) in bad {
            ctx.violation(&format!("parse-error-{}", what), format!("{:?}: expected {} got {}", e, want, got), json!({"value": format!("{:?}", e), "op": what}));
        }
        ctx.end_case();
    }
    // From<E>
    for &e in &errs {
        ctx.count("evaluations");
        let p: PE = PE::from(e);
        if p != (ParseError::User { error: e }) {
            ctx.violation("parse-error-from", format!("From<E>({}) gave {:?}", e, p), json!({"from": e.to_string()}));
        }
    }
}

fn ref_map_id(m: &ParseError<u64, char, char>) -> ParseError<u64, String, String> {
    match m.clone() {
        ParseError::InvalidToken { location } => ParseError::InvalidToken { location },
        ParseError::UnrecognizedEof { location, expected } => ParseError::UnrecognizedEof { location, expected },
        ParseError::UnrecognizedToken { token, expected } => ParseError::UnrecognizedToken { token: (token.0, token.1.to_string(), token.2), expected },
        ParseError::ExtraToken { token } => ParseError::ExtraToken { token: (token.0, token.1.to_string(), token.2) },
        ParseError::User { error } => ParseError::User { error: error.to_string() },
    }
}
