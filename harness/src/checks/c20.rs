//! C20: code generation is deterministic.
//! (a) hash-iteration order owned by the `lalrpop_verif` hook: every permutation of the keys
//!     at the (only) hash-ordered iteration site is enumerated;
//! (b) batch composition: every subset / naming (hence processing order) of 3 grammars through
//!     process_dir, each alone through process_file, in one process and in fresh processes;
//! (c) fresh processes per seed (real RandomState seeds: sampling, labelled so).

use crate::checks::c18;
use crate::drv::{self, GenOpts};
use crate::fw::{CheckDef, Ctx, Tier};
use serde_json::json;
use std::path::Path;

pub fn def() -> CheckDef {
    CheckDef {
        id: "C20",
        level: "exploration",
        rule: "(a) for every seed grammar, harness seed and member of a family of untyped (cyclic and acyclic) nonterminal sets, the generator is run with the hooked iteration order set to every permutation index p < k! (k <= 5 keys; beyond: identity, reverse and rotations); outputs and success must equal those of p = 0. (b) three grammars: every non-empty subset under every assignment of file names a/b/c (hence every processing order) in one directory via process_dir, and each alone via process_file, all in one process, compared byte for byte with the output of the real CLI in a fresh process. (c1) the real CLI under a getrandom() shim (LD_PRELOAD) that makes the SipHash keys of every HashMap/HashSet of the process a function of a harness-chosen seed: seeds 1..8 (thorough 32) per grammar must write identical bytes; a probe program checks on every run that the shim really controls iteration order. (c2) 3 fresh CLI processes per grammar with real RandomState seeds (sampling, labelled so). distinct_nontrivial = (grammar, permutation) runs with p != 0 on a site that saw >= 2 keys, plus batch members processed after another file",
        evaluations: "generations",
        nontrivial: "nontrivial",
        mc: None,
        require: &["generations", "nontrivial", "hook_events", "permutations_tried", "batch_members_after_another", "fresh_process_runs", "seeded_process_runs"],
        exhaustive: true,
        assumptions: &["the hook enumerates every order at the one hash-ordered iteration that used to reach the output (tyinfer::infer_types); any other iteration site is reached by part (c1), where each seed fixes all hash orders of the process at once: reproducible, but a sweep over seeds, not over all orders", "diagnostics of rejected grammars are not compared, only success and output bytes"],
        shards: 0,
        run,
        crash_class: Some("generator"),
    }
}

#[cfg(feature = "hooked")]
fn set_perm(p: usize) -> bool {
    lalrpop::__verif::set_permutation(p);
    true
}
#[cfg(feature = "hooked")]
fn take_stats() -> (usize, usize) {
    lalrpop::__verif::take_stats()
}
#[cfg(not(feature = "hooked"))]
fn set_perm(_p: usize) -> bool {
    false
}
#[cfg(not(feature = "hooked"))]
fn take_stats() -> (usize, usize) {
    (0, 0)
}

fn untyped_family() -> Vec<String> {
    // nonterminals without type annotations; alternatives from a small menu, incl. cycles
    let shapes = |me: usize, other: usize| -> Vec<String> {
        vec![
            "\"x\"".to_string(),
            format!("N{} \"a\"", other),
            format!("N{}", other),
            format!("\"b\" N{} \"c\"", me),
            format!("<N{}> \"d\"", other),
            "\"e\" => 1u8".to_string(),
        ]
    };
    let mut out = vec![];
    for a0 in 0..6 {
        for a1 in 0..6 {
            for b0 in 0..6 {
                for b1 in [0usize, 1, 2, 5] {
                    let sa = shapes(0, 1);
                    let sb = shapes(1, 0);
                    out.push(format!("grammar;\npub N0 = {{ {}, {} }};\nN1 = {{ {}, {} }};\nN2 = {{ N0 N1 }};\n", sa[a0], sa[a1], sb[b0], sb[b1]));
                }
            }
        }
    }
    out
}

fn fact(n: usize) -> usize {
    (1..=n).product::<usize>().max(1)
}

fn run(ctx: &mut Ctx) {
    let dir = drv::scratch_sub(&ctx.scratch.clone(), "c20");
    let thorough = ctx.tier == Tier::Thorough;
    if !set_perm(0) {
        ctx.machinery("C20 must be run from the hooks-on build (target-hooks); bin/check does that".to_string());
        return;
    }
    let cli = crate::fw::verif_dir().join("target/cli/release/lalrpop");
    // ---- (a)
    let mut texts: Vec<(String, String)> = crate::checks::textchk_seed_texts(if thorough { 80_000 } else { 3000 });
    for (i, t) in untyped_family().into_iter().enumerate() {
        texts.push((format!("untyped-{}", i), t));
    }
    let _ = c18::HARNESS_SEEDS;
    for (i, (name, text)) in texts.iter().enumerate() {
        if !ctx.mine(i as u64) || !ctx.begin_case(i as u64) {
            continue;
        }
        ctx.case_detail(&json!({"origin": name, "text": text}));
        set_perm(0);
        let _ = take_stats();
        let base = drv::generate_in(&dir, text.as_bytes(), &GenOpts::default());
        ctx.count("generations");
        let (events, keys) = take_stats();
        ctx.add("hook_events", events as u64);
        ctx.max("max_keys_at_site", keys as u64);
        if let Some(p) = &base.panic {
            ctx.note("panic_sample", json!({"text": text, "panic": p}));
        }
        if events == 0 || keys < 2 {
            ctx.end_case();
            continue;
        }
        let perms: Vec<usize> = if keys <= 5 {
            (1..fact(keys)).collect()
        } else {
            // reverse and rotations, expressed as permutation indices is awkward beyond 5 keys:
            // take a spread of indices over the range of k! (capped)
            let f = fact(keys.min(12));
            let mut v = vec![f - 1];
            for j in 1..(if thorough { 40 } else { 12 }) {
                v.push((f / 41) * j + j);
            }
            v
        };
        for p in perms {
            set_perm(p);
            let out = drv::generate_in(&dir, text.as_bytes(), &GenOpts::default());
            ctx.count("generations");
            ctx.count("permutations_tried");
            ctx.count("nontrivial");
            let _ = take_stats();
            if out.ok != base.ok || out.rs != base.rs || out.panic.is_some() != base.panic.is_some() {
                let class = if out.ok != base.ok { "iteration-order-changes-acceptance" } else { "iteration-order-changes-output" };
                ctx.violation(class, format!("{}: permutation {} of {} keys gives ok={} (p=0: ok={}); outputs {}", name, p, keys, out.ok, base.ok, if out.rs == base.rs { "equal" } else { "differ" }), json!({"origin": name, "text": text, "permutation": p}));
                break;
            }
        }
        set_perm(0);
        if i % 53 == 5 {
            ctx.sample(json!({"origin": name, "keys_at_site": keys}));
        }
        ctx.end_case();
    }
    // ---- (b) batch composition (one worker: it changes the process-global cwd/env nothing, but keeps it simple)
    if ctx.shard == 0 {
        if !ctx.begin_case(u64::MAX / 2) {
            return;
        }
        let gs = [c18::HARNESS_SEEDS[0], c18::HARNESS_SEEDS[1], c18::HARNESS_SEEDS[5]];
        // reference: fresh CLI process, each alone
        let mut refs: Vec<Option<String>> = vec![];
        for g in &gs {
            refs.push(cli_output(&cli, &dir, g));
        }
        if refs.iter().any(|r| r.is_none()) {
            ctx.machinery("batch reference generation failed".to_string());
        }
        let names = ["a", "b", "c"];
        // all assignments of names to the members of every non-empty subset
        for mask in 1u8..8 {
            let members: Vec<usize> = (0..3).filter(|i| mask & (1 << i) != 0).collect();
            let mut perm: Vec<usize> = (0..members.len()).collect();
            loop {
                let d = dir.join("batch");
                let _ = std::fs::remove_dir_all(&d);
                std::fs::create_dir_all(d.join("in")).unwrap();
                std::fs::create_dir_all(d.join("out")).unwrap();
                for (slot, &mi) in perm.iter().enumerate() {
                    std::fs::write(d.join("in").join(format!("{}.lalrpop", names[slot])), gs[members[mi]]).unwrap();
                }
                let mut c = lalrpop::Configuration::new();
                c.never_use_colors().log_quiet().force_build(true).set_out_dir(d.join("out"));
                let cap = d.join("cap.txt");
                let (res, _) = drv::capture(&cap, || std::panic::catch_unwind(std::panic::AssertUnwindSafe(|| c.process_dir(d.join("in")).map_err(|e| e.to_string()))));
                ctx.count("generations");
                if !matches!(res, Ok(Ok(()))) {
                    ctx.violation("batch-fails", format!("process_dir over members {:?} order {:?} failed: {:?}", members, perm, res), json!({"members": members, "order": perm}));
                }
                for (slot, &mi) in perm.iter().enumerate() {
                    if slot > 0 {
                        ctx.count("batch_members_after_another");
                        ctx.count("nontrivial");
                    }
                    let got = std::fs::read_to_string(d.join("out").join(format!("{}.rs", names[slot]))).ok();
                    if got != refs[members[mi]] {
                        ctx.violation("batch-composition-changes-output", format!("grammar #{} processed as `{}` (slot {} of {:?}) differs from its output when processed alone in a fresh process", members[mi], names[slot], slot, perm), json!({"members": members, "order": perm, "grammar": gs[members[mi]]}));
                    }
                }
                if !next_perm(&mut perm) {
                    break;
                }
            }
        }
        // (b2) two grammars in which the same text is a quoted literal in one and a regex in the
        // other, and two that use the same macro name with different bodies: anything remembered
        // between files by the text of a terminal or the name of a macro shows here
        let pairs: [(&str, &str); 2] = [
            ("grammar;\npub S: u32 = { \".\" => 1, r\"[0-9]+\" => 3 };\n", "grammar;\npub S: u32 = { r\".\" => 1, \"[0-9]+\" => 3 };\n"),
            ("grammar;\nM<X>: Vec<X> = { <X> => vec![<>] };\npub S = M<\"a\">;\n", "grammar;\nM<X>: Vec<X> = { <a:X> <b:X> => vec![a, b] };\npub S = M<\"a\">;\n"),
        ];
        for (pi, (ga, gb)) in pairs.iter().enumerate() {
            let ra = cli_output(&cli, &dir, ga);
            let rb = cli_output(&cli, &dir, gb);
            if ra.is_none() || rb.is_none() {
                ctx.machinery(format!("batch pair {}: reference generation failed", pi));
                continue;
            }
            for order in 0..2 {
                let d = dir.join("batch2");
                let _ = std::fs::remove_dir_all(&d);
                std::fs::create_dir_all(d.join("in")).unwrap();
                std::fs::create_dir_all(d.join("out")).unwrap();
                // file names decide the processing order
                let (first, second) = if order == 0 { (ga, gb) } else { (gb, ga) };
                std::fs::write(d.join("in/a.lalrpop"), first).unwrap();
                std::fs::write(d.join("in/b.lalrpop"), second).unwrap();
                let mut c = lalrpop::Configuration::new();
                c.never_use_colors().log_quiet().force_build(true).set_out_dir(d.join("out"));
                let cap = d.join("cap.txt");
                let (res, _) = drv::capture(&cap, || std::panic::catch_unwind(std::panic::AssertUnwindSafe(|| c.process_dir(d.join("in")).map_err(|e| e.to_string()))));
                ctx.count("generations");
                ctx.count("batch_members_after_another");
                ctx.count("nontrivial");
                let (want_a, want_b) = if order == 0 { (&ra, &rb) } else { (&rb, &ra) };
                let got_a = std::fs::read_to_string(d.join("out/a.rs")).ok();
                let got_b = std::fs::read_to_string(d.join("out/b.rs")).ok();
                if !matches!(res, Ok(Ok(()))) || &got_a != want_a || &got_b != want_b {
                    ctx.violation("batch-composition-changes-output", format!("pair {} order {}: processed together in one process the two grammars do not give what each gives alone in a fresh process (a.rs {}, b.rs {}, result {:?})", pi, order, if &got_a == want_a { "equal" } else { "differs" }, if &got_b == want_b { "equal" } else { "differs" }, res.as_ref().map(|r| r.is_ok()).unwrap_or(false)), json!({"pair": pi, "order": order, "first": first, "second": second}));
                }
            }
        }
        // each alone via process_file, one after another in this process
        for (gi, g) in gs.iter().enumerate() {
            let out = drv::generate_in(&dir, g.as_bytes(), &GenOpts::default());
            ctx.count("generations");
            if out.rs != refs[gi] {
                ctx.violation("in-process-differs-from-fresh-process", format!("grammar #{}: process_file in a long-lived process differs from the CLI in a fresh process", gi), json!({"grammar": g}));
            }
        }
        ctx.end_case();
    }
    // ---- (c) fresh processes. (c1) hash seeds owned by the harness: a getrandom() shim makes the
    // SipHash keys of every HashMap/HashSet of the child a function of $VERIF_HASH_SEED; the CLI is
    // run under seeds 1..K and must write identical bytes. (c2) real RandomState seeds: sampling.
    let shim = crate::fw::verif_dir().join("target/seedrand.so");
    let probe = crate::fw::verif_dir().join("target/hashorder");
    let probe_run = |seed: Option<u32>| -> Option<String> {
        let mut c = std::process::Command::new(&probe);
        if let Some(s) = seed {
            c.env("LD_PRELOAD", &shim).env("VERIF_HASH_SEED", s.to_string());
        }
        c.output().ok().map(|o| String::from_utf8_lossy(&o.stdout).to_string())
    };
    let shim_ok = match (probe_run(Some(1)), probe_run(Some(1)), probe_run(Some(2)), probe_run(Some(3))) {
        (Some(a), Some(b), Some(c), Some(d)) => !a.is_empty() && a == b && (a != c || a != d),
        _ => false,
    };
    if !shim_ok {
        ctx.machinery("the getrandom shim does not control the hash iteration order of a child process (target/seedrand.so, target/hashorder)".to_string());
    }
    let n_seeds: u32 = if thorough { 32 } else { 8 };
    let n_fresh = 3;
    for (i, (name, text)) in texts.iter().enumerate().step_by(if thorough { 1 } else { 5 }) {
        if text.len() > 4000 || name.starts_with("untyped-") && i % 40 != 0 {
            continue;
        }
        let ci = (1u64 << 40) + i as u64;
        if !ctx.mine(i as u64 / if thorough { 1 } else { 5 }) || !ctx.begin_case(ci) {
            continue;
        }
        let first = cli_output(&cli, &dir, text);
        if shim_ok {
            for seed in 1..=n_seeds {
                ctx.count("seeded_process_runs");
                ctx.count("generations");
                let o = cli_output_seeded(&cli, &dir, text, Some((&shim, seed)));
                if o != first {
                    ctx.violation("hash-seed-changes-output", format!("{}: with hash seed {} the CLI wrote different bytes (or its verdict changed)", name, seed), json!({"origin": name, "text": text, "hash_seed": seed}));
                    break;
                }
            }
        }
        for _ in 1..n_fresh {
            ctx.count("fresh_process_runs");
            ctx.count("generations");
            let o = cli_output(&cli, &dir, text);
            if o != first {
                ctx.violation("fresh-processes-differ", format!("{}: two fresh processes wrote different bytes (or one failed)", name), json!({"origin": name, "text": text}));
                break;
            }
        }
        ctx.end_case();
    }
}

fn next_perm(p: &mut Vec<usize>) -> bool {
    let n = p.len();
    if n < 2 {
        return false;
    }
    let mut i = n - 1;
    while i > 0 && p[i - 1] >= p[i] {
        i -= 1;
    }
    if i == 0 {
        return false;
    }
    let mut j = n - 1;
    while p[j] <= p[i - 1] {
        j -= 1;
    }
    p.swap(i - 1, j);
    p[i..].reverse();
    true
}

fn cli_output(cli: &Path, dir: &Path, text: &str) -> Option<String> {
    cli_output_seeded(cli, dir, text, None)
}

fn cli_output_seeded(cli: &Path, dir: &Path, text: &str, seed: Option<(&Path, u32)>) -> Option<String> {
    let d = dir.join("fresh");
    let _ = std::fs::remove_dir_all(&d);
    std::fs::create_dir_all(&d).ok()?;
    // same file name as the in-process driver, so that nothing that depends on the name differs
    std::fs::write(d.join("g.lalrpop"), text).ok()?;
    let mut c = std::process::Command::new(cli);
    if let Some((shim, s)) = seed {
        c.env("LD_PRELOAD", shim).env("VERIF_HASH_SEED", s.to_string());
    }
    let st = c.current_dir(&d).args(["-f", "g.lalrpop"]).stdout(std::process::Stdio::null()).stderr(std::process::Stdio::null()).status().ok()?;
    if !st.success() {
        return None;
    }
    std::fs::read_to_string(d.join("g.rs")).ok()
}
