//! C19: accepted grammars compile. Finite product of type/location/lexer/backend features;
//! user-written code is well-typed by construction, so LALRPOP Ok => rustc Ok.

use crate::drv::{self, GenOpts};
use crate::fw::{CheckDef, Ctx, Tier};
use crate::implr;
use serde_json::json;

pub fn def() -> CheckDef {
    CheckDef {
        id: "C19",
        level: "exploration",
        rule: "product of feature fragments {*,+,? inferred Vec/Option; inferred tuple; generic macro Comma<T> with mut binding; @L/@R incl. an empty production with lookaround outside the start state; plain empty production; annotated/inferred chain; use of a grammar type parameter} (quick: all subsets of size <= 2 and the full set; thorough: all subsets) x grammar parameters {none, lifetime + type parameter + where clause} x Location {usize, absent, Clone-only struct} x lexer {extern, built-in} x backend {table, ascent}; every accepted grammar's module is compiled by rustc. distinct_nontrivial = accepted grammars with at least two fragments or a non-default location/parameter setting",
        evaluations: "grammars",
        nontrivial: "nontrivial",
        mc: None,
        require: &["grammars", "accepted", "compiled_ok", "with_clone_loc", "ascent"],
        exhaustive: true,
        assumptions: &["the fragments' user-written action code and type annotations are well-typed by construction (each fragment asserts its inferred type with a `let _: T = x;`)", "rustc is the oracle for `compiles`"],
        shards: 4,
        run,
        crash_class: Some("generator"),
    }
}

#[derive(Clone, Debug, serde::Serialize, serde::Deserialize)]
struct Cfg19 {
    frags: u32,
    params: bool,
    loc: u8, // 0 usize, 1 absent, 2 Clone-only struct
    intern: bool,
    ascent: bool,
}

const NFRAG: usize = 8;

fn render(c: &Cfg19) -> Option<String> {
    let loc_ty = match (c.intern, c.loc) {
        (true, 0) => "usize",
        (true, _) => return None, // built-in lexer fixes the location type
        (false, 0) => "usize",
        (false, 1) => "()",
        (false, _) => "Loc",
    };
    let has_loc = !(c.loc == 1 && !c.intern);
    let mut s = String::new();
    if !c.intern {
        s.push_str("use super::{Tok, Loc};\n");
    } else {
        s.push_str("use super::Loc;\n");
    }
    if c.ascent {
        s.push_str("#[recursive_ascent]\n");
    }
    if c.params {
        // the lifetime occurs in a trait bound of T and in no nonterminal type
        s.push_str("grammar<'x, T>(scale: &'x T) where T: Clone + std::fmt::Debug + super::Mk<'x>;\n");
    } else {
        s.push_str("grammar;\n");
    }
    if !c.intern {
        s.push_str("extern {\n");
        if c.loc != 1 {
            s.push_str(&format!("    type Location = {};\n", loc_ty));
        }
        s.push_str("    type Error = String;\n    enum Tok { \"a\" => Tok::T0, \"b\" => Tok::T1, \"c\" => Tok::T2, \"d\" => Tok::T3, \"e\" => Tok::T4 }\n}\n");
    }
    let mut alts: Vec<String> = vec!["\"c\" => ()".to_string()];
    let mut defs = String::new();
    let mut k = 0;
    let mut add = |alts: &mut Vec<String>, body: &str| {
        let prefix = "\"e\" ".repeat(k);
        alts.push(format!("{}\"d\" {}", prefix, body));
        k += 1;
    };
    if c.frags & 1 != 0 {
        defs.push_str("Items0 = Item0*;\nPlus0 = Item0+;\nOpt0 = Item0?;\nItem0: u32 = { \"a\" => 1 };\n");
        add(&mut alts, "<x:Items0> \"b\" <y:Plus0> \"b\" <z:Opt0> => { let _: (Vec<u32>, Vec<u32>, Option<u32>) = (x, y, z); }");
    }
    if c.frags & 2 != 0 {
        defs.push_str("Pair1 = { Item1 Item1 };\nItem1: String = \"a\" => \"x\".to_string();\n");
        add(&mut alts, "<p:Pair1> => { let _: (String, String) = p; }");
    }
    if c.frags & 4 != 0 {
        defs.push_str("Comma2<T>: Vec<T> = { <mut v:(<T> \"b\")*> <e:T?> => { v.extend(e); v } };\nItem2: u8 = \"a\" => 1;\n");
        add(&mut alts, "<c:Comma2<Item2>> => { let _: Vec<u8> = c; }");
    }
    if c.frags & 8 != 0 {
        if !has_loc {
            return None;
        }
        defs.push_str(&format!("Sp3: ({l}, u8, {l}) = {{ <l:@L> \"a\" <r:@R> => (l, 3, r) }};\nE3: {l} = {{ <l:@L> => l }};\nR3: {l} = {{ <r:@R> => r }};\n", l = loc_ty));
        add(&mut alts, &format!("\"a\" <e:E3> <s:Sp3> <r:R3> => {{ let _: ({l}, ({l}, u8, {l}), {l}) = (e, s, r); }}", l = loc_ty));
    }
    if c.frags & 16 != 0 {
        defs.push_str("E4: u8 = { => 0, \"a\" => 1 };\n");
        add(&mut alts, "\"b\" <e:E4> \"b\" => { let _: u8 = e; }");
    }
    if c.frags & 32 != 0 {
        defs.push_str("T5 = { <Item5> };\nU5: Vec<i64> = { <T5> => vec![<>] };\nItem5: i64 = \"a\" => 5;\n");
        add(&mut alts, "<t:U5> => { let _: Vec<i64> = t; }");
    }
    if c.frags & 64 != 0 {
        if !c.params {
            return None;
        }
        defs.push_str("G6: T = { \"a\" => scale.clone() };\n");
        add(&mut alts, "<g:G6> => { let _: T = g; }");
    }
    if c.frags & 128 != 0 {
        // macro parameters inside every shape of declared type: behind a reference, in a tuple,
        // nested in generic arguments
        defs.push_str("Ref7<T>: &'static T = { <t:T> => &*Box::leak(Box::new(t)) };\nTup7<T>: (T, Option<T>) = { <t:T> => (t, None) };\nNest7<T>: Vec<(T, &'static T)> = { <a:T> <b:Ref7<T>> => vec![(a, b)] };\nItem7: u16 = \"a\" => 7;\n");
        add(&mut alts, "<r:Ref7<Item7>> \"b\" <t:Tup7<Item7>> \"b\" <n:Nest7<Item7>> <o:Ref7<Item7>?> => { let _: (&'static u16, (u16, Option<u16>), Vec<(u16, &'static u16)>, Option<&'static u16>) = (r, t, n, o); }");
    }
    s.push_str("pub S: () = {\n");
    for a in alts {
        s.push_str(&format!("    {},\n", a));
    }
    s.push_str("};\n");
    s.push_str(&defs);
    Some(s)
}

fn run(ctx: &mut Ctx) {
    let dir = drv::scratch_sub(&ctx.scratch.clone(), "c19");
    let mut cases: Vec<Cfg19> = vec![];
    if let Some(case) = ctx.replay.clone() {
        cases.push(serde_json::from_value(case["cfg"].clone()).expect("cfg"));
    } else {
        let mut masks: Vec<u32> = vec![];
        for m in 0u32..(1 << NFRAG) {
            if ctx.tier == Tier::Thorough || m.count_ones() <= 2 || m == (1 << NFRAG) - 1 || m == 0b0111111 || m == 0b10111111 {
                masks.push(m);
            }
        }
        for &frags in &masks {
            for params in [false, true] {
                for loc in 0..3u8 {
                    for intern in [false, true] {
                        for ascent in [false, true] {
                            cases.push(Cfg19 { frags, params, loc, intern, ascent });
                        }
                    }
                }
            }
        }
    }
    let env = match implr::rustc_env() {
        Ok(e) => e,
        Err(e) => {
            ctx.machinery(e);
            return;
        }
    };
    crate::fw::CASE_BUDGET_MS.store(600_000, std::sync::atomic::Ordering::SeqCst);
    let mut batch: Vec<(Cfg19, String, implr::Unit)> = vec![];
    let mut idx = 0u64;
    let flush = |ctx: &mut Ctx, batch: &mut Vec<(Cfg19, String, implr::Unit)>, bi: u64| {
        if batch.is_empty() {
            return;
        }
        if !ctx.begin_case(bi) {
            batch.clear();
            return;
        }
        let units: Vec<implr::Unit> = batch.iter().map(|b| implr::Unit { rs: b.2.rs.clone(), glue: b.2.glue.clone() }).collect();
        let bdir = dir.join("build");
        let _ = std::fs::remove_dir_all(&bdir);
        match implr::build(&env, &bdir, &units, "") {
            Ok(built) => {
                for (i, e) in built.unit_errors.iter().enumerate() {
                    match e {
                        None => ctx.count("compiled_ok"),
                        Some(msg) => {
                            let c = &batch[i].0;
                            let class = format!("uncompilable-{}-{}", if c.ascent { "ascent" } else { "table" }, if msg.contains("E0507") { "move-out-of-borrow" } else { "other" });
                            ctx.violation(&class, format!("accepted grammar does not compile ({:?}): {}", c, msg), json!({"cfg": c, "grammar": batch[i].1, "rustc": msg}));
                        }
                    }
                }
            }
            Err(e) => ctx.machinery(format!("build: {}", e)),
        }
        let _ = std::fs::remove_dir_all(&bdir);
        batch.clear();
        ctx.end_case();
    };
    let mut bi = 0u64;
    for c in cases {
        let Some(text) = render(&c) else { continue };
        idx += 1;
        if !ctx.mine(idx) && ctx.replay.is_none() {
            continue;
        }
        ctx.count("grammars");
        let out = drv::generate_in(&dir, text.as_bytes(), &GenOpts::default());
        if let Some(p) = &out.panic {
            ctx.violation("generator-panic", format!("{:?}: {}", c, p), json!({"cfg": c, "grammar": text}));
            continue;
        }
        if !out.ok {
            ctx.count("rejected_by_lalrpop");
            ctx.note("rejected_sample", json!({"cfg": c, "diag": out.diag.lines().take(3).collect::<Vec<_>>()}));
            continue;
        }
        ctx.count("accepted");
        if c.frags.count_ones() >= 2 || c.params || c.loc != 0 {
            ctx.count("nontrivial");
        }
        if c.loc == 2 {
            ctx.count("with_clone_loc");
        }
        if c.ascent {
            ctx.count("ascent");
        }
        if idx % 97 == 3 {
            ctx.sample(json!({"cfg": c, "grammar": text}));
        }
        batch.push((c, text, implr::Unit { rs: out.rs.unwrap(), glue: "pub fn run(_e: usize, _i: &str) -> String { String::new() }\n".to_string() }));
        if batch.len() >= 48 {
            bi += 1;
            flush(ctx, &mut batch, bi * 64 + ctx.shard as u64);
        }
    }
    bi += 1;
    flush(ctx, &mut batch, bi * 64 + ctx.shard as u64);
}
