//! C02, C06, C07, C14, C17: value / location / action-order semantics on compiled parsers
//! (Impl-R), both backends, against the `sem` oracle of dg.rs.

use crate::dg::{self, DAlt, DG, Expect, NtKind, Style};
use crate::drv::{self, GenOpts};
use crate::fw::{CheckDef, Ctx, Tier};
use crate::gram::{self, Algo, Cfg, Codegen, Sym};
use crate::implr;
use crate::lang::{self, Lang};
use crate::obs::Obs;
use serde_json::{Value, json};
use std::path::Path;

#[derive(Clone, Copy, PartialEq, Eq, Debug)]
enum Prop {
    C02,
    C06,
    C07,
    C14,
    C17,
}

pub fn defs() -> Vec<CheckDef> {
    let mk = |id: &'static str, rule: &'static str, nontrivial: &'static str, require: &'static [&'static str], run: fn(&mut Ctx)| CheckDef {
        id,
        level: "exploration",
        rule,
        evaluations: "parses",
        nontrivial,
        mc: None,
        require,
        exhaustive: true,
        assumptions: &["the `sem` evaluator in harness/src/dg.rs transcribes the documented action/location semantics; derivation trees come from the harness's own CYK-style counter, not from LALRPOP", "rustc-compiled parsers are run on all inputs up to length n over the grammar's terminals; larger grammars/inputs are not explored"],
        // rustc does not scale across processes in this sandbox (page-fault bound): 4 workers
        shards: 4,
        run,
        crash_class: Some("parser"),
    };
    vec![
        mk("C02", "reduced F-cfg skeletons (size <= S) x action-style assignments (named / anonymous / <> / <X> selections / mut / default actions; plus, per non-pub nonterminal, a `()`-typed variant and a tuple-valued variant without actions bound by `<(a, b):N>` patterns), rotated diagonally through each alternative's style menu (thorough: more rotations), compiled with both backends, all inputs <= n; oracle: value string and action log computed by sem over the unique derivation tree. distinct_nontrivial = accepted (grammar, input) pairs whose tree has >= 2 nodes with user actions", "accepted_multi_action", &["parses", "accepted", "accepted_multi_action", "default_action_nodes", "tuple_default_nodes", "unit_default_nodes"], run_c02),
        mk("C06", "skeletons with @L/@R marks at every gap layout (all-@L, all-@R, <l:@L>..<r:@R>, alternating) x inline subsets, both backends, gapped token spans (10i+3,10i+7); oracle: sem location rules. distinct_nontrivial = accepted pairs whose tree has an empty derivation, a mark fallback or an inlined node", "accepted_nontrivial_loc", &["parses", "accepted", "accepted_nontrivial_loc"], run_c06),
        mk("C07", "unit, value-building, location-capturing and fallible renderings of the skeletons, each compiled table-driven and recursive-ascent, all inputs <= n (accepted and rejected); oracle: equal result (value / error variant, token, location, user error). distinct_nontrivial = (grammar, input) pairs compared whose result is an error or a non-unit value", "pairs_nontrivial", &["pairs_compared", "pairs_nontrivial", "pairs_rejected_input"], run_c07),
        mk("C14", "skeletons x all non-empty subsets of inlinable nonterminals (non-recursive, non-pub) x {all named, all fallible, two alternations of => and =>? alternatives} actions, vs the same grammar without #[inline], whenever both are conflict-free; oracle: same value / user error, and the action log predicted by sem (inlined actions deferred to just before their host's action, left to right). distinct_nontrivial = (grammar, subset, input) cases with an inlined node in the tree", "cases_with_inlined_node", &["parses", "cases_with_inlined_node", "inline_variants"], run_c14),
        mk("C17", "skeletons (incl. F-rec error-recovery ones) with =>? actions that fail on a marker token x all inputs, and every position k of an injected Err item in the token stream; oracle: exactly that error, tokens pulled, action log prefix, no recovery. distinct_nontrivial = runs that ended in a user error", "user_error_runs", &["parses", "user_error_runs", "injected_runs", "action_error_runs"], run_c17),
    ]
}

fn run_c02(c: &mut Ctx) {
    run(c, Prop::C02)
}
fn run_c06(c: &mut Ctx) {
    run(c, Prop::C06)
}
fn run_c07(c: &mut Ctx) {
    run(c, Prop::C07)
}
fn run_c14(c: &mut Ctx) {
    run(c, Prop::C14)
}
fn run_c17(c: &mut Ctx) {
    run(c, Prop::C17)
}

// ---------------------------------------------------------------------------------------

fn skeletons(max_size: usize, f: &mut dyn FnMut(&Cfg)) {
    gram::enum_fcfg(max_size, 3, 2, &mut |g| {
        if g.terms >= 1 && g.is_reduced() {
            f(g);
        }
    });
}

pub fn inlinable(g: &Cfg) -> Vec<usize> {
    (0..g.nts)
        .filter(|&n| {
            if g.pubs.contains(&n) {
                return false;
            }
            // non-recursive: n not reachable from its own alternatives
            let mut seen = vec![false; g.nts];
            let mut st: Vec<usize> = vec![];
            for r in &g.alts[n] {
                for s in r {
                    if let Sym::N(m) = s {
                        st.push(*m as usize);
                    }
                }
            }
            while let Some(m) = st.pop() {
                if seen[m] {
                    continue;
                }
                seen[m] = true;
                for r in &g.alts[m] {
                    for s in r {
                        if let Sym::N(k) = s {
                            st.push(*k as usize);
                        }
                    }
                }
            }
            !seen[n]
        })
        .collect()
}

/// an item to compile and run: a decorated grammar, or a unit rendering of a skeleton
#[derive(Clone)]
struct Item {
    dg: DG,
    /// variant tag for reporting
    tag: String,
    /// group key: items with the same group are compared with each other (C14)
    group: usize,
    backends: Vec<Codegen>,
    with_injection: bool,
}

fn rotate_styles(g: &Cfg, r: usize, with_fallible: bool) -> Vec<Vec<DAlt>> {
    let mut j = 0;
    g.alts
        .iter()
        .map(|a| {
            a.iter()
                .map(|rhs| {
                    let menu = DG::menu(rhs, with_fallible);
                    let s = menu[(r + j) % menu.len()];
                    j += 1;
                    DAlt { style: s, marks: vec![] }
                })
                .collect()
        })
        .collect()
}

fn mark_layout(g: &Cfg, layout: usize) -> Vec<Vec<DAlt>> {
    g.alts
        .iter()
        .map(|a| {
            a.iter()
                .map(|rhs| {
                    let k = rhs.len() as u8;
                    let (style, marks): (Style, Vec<(u8, bool)>) = match layout {
                        0 => (Style::Named, (0..=k).map(|g| (g, true)).collect()),
                        1 => (Style::Named, (0..=k).map(|g| (g, false)).collect()),
                        2 => (Style::Named, vec![(0, true), (k, false)]),
                        3 => (Style::AngleAll, (0..=k).map(|g| (g, g % 2 == 0)).collect()),
                        // `<l:@L> .. <r:@R>` around non-empty alternatives, `<r:@R> <l:@L>` (the end
                        // of what precedes, then the start of what follows) in empty ones: the one
                        // arrangement whose meaning inside an inlined empty alternative is fixed
                        // by the statement
                        5 if k == 0 => (Style::Named, vec![(0, false), (0, true)]),
                        5 => (Style::Named, vec![(0, true), (k, false)]),
                        _ => (Style::Named, (0..=k).flat_map(|g| vec![(g, false), (g, true)]).collect()),
                    };
                    DAlt { style, marks }
                })
                .collect()
        })
        .collect()
}

fn items_for(prop: Prop, tier: Tier, f: &mut dyn FnMut(Item)) {
    let both = vec![Codegen::Table, Codegen::Ascent];
    let mut group = 0usize;
    match prop {
        Prop::C02 => {
            let (s, rots) = tier.pick((6, 2), (7, 6));
            skeletons(s, &mut |g| {
                for r in 0..rots {
                    group += 1;
                    let dgm = DG { skel: g.clone(), inline: vec![false; g.nts], alts: rotate_styles(g, r, false), mark_term: None, kinds: vec![] };
                    f(Item { dg: dgm, tag: format!("rot{}", r), group, backends: both.clone(), with_injection: false });
                }
                // documented defaults without any action: a nonterminal whose value is the tuple of
                // its symbols (bound by `<(a, b):N>` in named alternatives), and a `()`-typed one
                let inl = inlinable(g);
                for n in 0..g.nts {
                    if g.pubs.contains(&n) {
                        continue;
                    }
                    let mut kinds_list: Vec<NtKind> = vec![NtKind::Unit];
                    if inl.contains(&n) && g.alts[n].len() == 1 && (2..=3).contains(&g.alts[n][0].len()) {
                        kinds_list.push(NtKind::Tuple);
                    }
                    for k in kinds_list {
                        group += 1;
                        let mut kinds = vec![NtKind::Value; g.nts];
                        kinds[n] = k;
                        let mut alts = rotate_styles(g, group, false);
                        for (m, a) in alts.iter_mut().enumerate() {
                            for (ai, d) in a.iter_mut().enumerate() {
                                // `<>` / default selections over a child that is not a plain value
                                // would test the harness's own conversion helpers: name them instead
                                // a child that is not a plain value cannot be the default value of a
                                // `V`-typed alternative
                                // (and for a tuple-valued child: always the named bindings with `<>`, so
                                // that a tuple pattern next to plain names meets the `<>` expansion)
                                if g.alts[m][ai].contains(&Sym::N(n as u8)) && (k == NtKind::Tuple || matches!(d.style, Style::DefaultSel(_) | Style::DefaultOnly)) {
                                    d.style = Style::NamedAngle;
                                }
                            }
                        }
                        let dgm = DG { skel: g.clone(), inline: vec![false; g.nts], alts, mark_term: None, kinds };
                        f(Item { dg: dgm, tag: format!("kind-{:?}-N{}", k, n), group, backends: both.clone(), with_injection: false });
                    }
                }
            });
        }
        Prop::C06 => {
            let s = tier.pick(5, 6);
            // optional-stack-slot shapes of the ascent backend (beyond the size bound)
            gram::enum_fopt(&mut |g| {
                for layout in 0..5 {
                    group += 1;
                    let dgm = DG { skel: g.clone(), inline: vec![false; g.nts], alts: mark_layout(g, layout), mark_term: None, kinds: vec![] };
                    f(Item { dg: dgm, tag: format!("fopt-layout{}", layout), group, backends: both.clone(), with_injection: false });
                }
            });
            skeletons(s, &mut |g| {
                let inl = inlinable(g);
                for layout in 0..6 {
                    let mut subsets: Vec<Vec<usize>> = vec![vec![]];
                    for &n in &inl {
                        subsets.push(vec![n]);
                    }
                    if inl.len() >= 2 {
                        subsets.push(inl.clone());
                    }
                    for sub in subsets {
                        if !sub.is_empty() && (layout == 3 || layout == 4) && tier == Tier::Quick {
                            continue;
                        }
                        if sub.is_empty() && layout == 5 {
                            continue;
                        }
                        group += 1;
                        let mut inline = vec![false; g.nts];
                        for &n in &sub {
                            inline[n] = true;
                        }
                        let dgm = DG { skel: g.clone(), inline, alts: mark_layout(g, layout), mark_term: None, kinds: vec![] };
                        f(Item { dg: dgm, tag: format!("layout{}-inl{:?}", layout, sub), group, backends: both.clone(), with_injection: false });
                    }
                }
            });
        }
        Prop::C14 => {
            let s = tier.pick(6, 7);
            // skeletons above the quick size bound in which ONE inlinable nonterminal with two
            // alternatives occurs two or three times in an alternative (its actions then have an
            // order among themselves)
            let mut extra: Vec<Cfg> = vec![];
            {
                use Sym::{N, T};
                let n1s: Vec<Vec<Vec<Sym>>> = vec![vec![vec![T(0)], vec![T(1)]], vec![vec![T(0)], vec![T(1), T(1)]], vec![vec![T(0), T(1)], vec![T(1)]]];
                for n1 in &n1s {
                    for n0 in [vec![N(1), N(1)], vec![N(1), T(0), N(1)], vec![N(1), N(1), N(1)], vec![T(1), N(1), N(1)]] {
                        extra.push(Cfg { nts: 2, terms: 2, alts: vec![vec![n0], n1.clone()], pubs: vec![0] });
                    }
                }
            }
            let mut all: Vec<Cfg> = vec![];
            skeletons(s, &mut |g| all.push(g.clone()));
            for g in extra {
                if !all.contains(&g) {
                    all.push(g);
                }
            }
            all.iter().for_each(&mut |g: &Cfg| {
                let inl = inlinable(g);
                if inl.is_empty() {
                    return;
                }
                // variants: all infallible, all fallible, and the two alternations of `=>` and `=>?`
                // alternatives within each nonterminal (inlined fallible and infallible actions
                // side by side)
                for variant in 0..4 {
                    group += 1;
                    let with_fall = variant >= 1;
                    let mark_term = if with_fall { Some(g.terms as u8 - 1) } else { None };
                    let alts: Vec<Vec<DAlt>> = g
                        .alts
                        .iter()
                        .map(|a| {
                            a.iter()
                                .enumerate()
                                .map(|(ai, _)| {
                                    let fallible = match variant {
                                        0 => false,
                                        1 => true,
                                        v => (ai + v) % 2 == 0,
                                    };
                                    DAlt { style: if fallible { Style::Fallible } else { Style::Named }, marks: vec![] }
                                })
                                .collect()
                        })
                        .collect();
                    for mask in 0u32..(1 << inl.len()) {
                        let mut inline = vec![false; g.nts];
                        for (i, &n) in inl.iter().enumerate() {
                            if mask & (1 << i) != 0 {
                                inline[n] = true;
                            }
                        }
                        let dgm = DG { skel: g.clone(), inline, alts: alts.clone(), mark_term, kinds: vec![] };
                        f(Item { dg: dgm, tag: format!("v{}-mask{}", variant, mask), group, backends: vec![Codegen::Table], with_injection: false });
                    }
                }
            });
        }
        Prop::C17 => {
            let s = tier.pick(5, 6);
            skeletons(s, &mut |g| {
                for r in 0..tier.pick(2, 4) {
                    group += 1;
                    let mut alts = rotate_styles(g, r, true);
                    // make sure at least the alternatives with a terminal are fallible in rotation 0
                    if r == 0 {
                        for a in alts.iter_mut() {
                            for d in a.iter_mut() {
                                d.style = Style::Fallible;
                            }
                        }
                    }
                    let inl = inlinable(g);
                    let mut inline = vec![false; g.nts];
                    if r % 2 == 1 {
                        for &n in &inl {
                            inline[n] = true;
                        }
                    }
                    let dgm = DG { skel: g.clone(), inline, alts, mark_term: Some(g.terms as u8 - 1), kinds: vec![] };
                    f(Item { dg: dgm, tag: format!("fall-rot{}", r), group, backends: both.clone(), with_injection: true });
                }
            });
            // recovery shapes in which a reduction happens at the start of recovery (F-recx): the
            // reduced production is fallible and fails on the marker token
            crate::checks::core::enum_frecx(&mut |g| {
                for mark in [0u8, g.terms as u8 - 1] {
                    group += 1;
                    let alts: Vec<Vec<DAlt>> = g.alts.iter().map(|a| a.iter().map(|rhs| DAlt { style: if rhs.contains(&Sym::Err) { Style::Anon } else { Style::Fallible }, marks: vec![] }).collect()).collect();
                    let dgm = DG { skel: g.clone(), inline: vec![false; g.nts], alts, mark_term: Some(mark), kinds: vec![] };
                    f(Item { dg: dgm, tag: format!("frecx-mark{}", mark), group, backends: vec![Codegen::Table], with_injection: true });
                }
            });
            // error-recovery skeletons: `!` alternatives anonymous, the rest fallible; table only
            crate::checks::core::enum_frec(tier.pick(4, 5), &mut |g| {
                group += 1;
                let alts: Vec<Vec<DAlt>> = g.alts.iter().map(|a| a.iter().map(|rhs| DAlt { style: if rhs.contains(&Sym::Err) { Style::Anon } else { Style::Fallible }, marks: vec![] }).collect()).collect();
                let dgm = DG { skel: g.clone(), inline: vec![false; g.nts], alts, mark_term: Some(g.terms as u8 - 1), kinds: vec![] };
                f(Item { dg: dgm, tag: "frec".into(), group, backends: vec![Codegen::Table], with_injection: true });
            });
        }
        Prop::C07 => {
            let s = tier.pick(5, 6);
            gram::enum_fopt(&mut |g| {
                for (k, alts) in [rotate_styles(g, 0, false), mark_layout(g, 2), mark_layout(g, 0), mark_layout(g, 4)].into_iter().enumerate() {
                    group += 1;
                    let dgm = DG { skel: g.clone(), inline: vec![false; g.nts], alts, mark_term: None, kinds: vec![] };
                    f(Item { dg: dgm, tag: format!("fopt-kind{}", k), group, backends: both.clone(), with_injection: false });
                }
            });
            skeletons(s, &mut |g| {
                for (k, alts) in [rotate_styles(g, 0, false), rotate_styles(g, 1, true), mark_layout(g, 2), mark_layout(g, 0)].into_iter().enumerate() {
                    group += 1;
                    let dgm = DG { skel: g.clone(), inline: vec![false; g.nts], alts, mark_term: if k == 1 { Some(g.terms as u8 - 1) } else { None }, kinds: vec![] };
                    f(Item { dg: dgm, tag: format!("kind{}", k), group, backends: both.clone(), with_injection: k == 1 });
                }
            });
        }
    }
}

struct Compiled {
    item: Item,
    /// unit index per backend (None: LALRPOP rejected the grammar for that backend)
    units: Vec<Option<usize>>,
}

fn run(ctx: &mut Ctx, prop: Prop) {
    let dir = drv::scratch_sub(&ctx.scratch.clone(), "v");
    if let Some(case) = ctx.replay.clone() {
        let item_dg: DG = serde_json::from_value(case["dg"].clone()).expect("dg");
        let backends = vec![Codegen::Table, Codegen::Ascent];
        let it = Item { dg: item_dg, tag: "replay".into(), group: 0, backends, with_injection: true };
        process_chunk(ctx, prop, &dir, &[it], 6, Some(&case));
        return;
    }
    let n = match prop {
        Prop::C14 => ctx.tier.pick(5, 6),
        _ => ctx.tier.pick(5, 6),
    };
    let mut mine: Vec<Item> = vec![];
    let mut total = 0u64;
    let tier = ctx.tier;
    let (shard, nshards) = (ctx.shard, ctx.nshards);
    items_for(prop, tier, &mut |it| {
        // shard by group so that comparison groups stay together
        if it.group % nshards == shard {
            mine.push(it);
        }
        total += 1;
    });
    ctx.note("bounds", json!({"n": n, "items_total": total}));
    crate::fw::CASE_BUDGET_MS.store(300_000, std::sync::atomic::Ordering::SeqCst);
    // chunks of whole groups, about 24 units each
    let mut start = 0;
    let mut case_idx = 0u64;
    while start < mine.len() {
        let mut end = start;
        let mut units = 0;
        while end < mine.len() && (units < 64 || mine[end].group == mine[end - 1].group) {
            units += mine[end].backends.len();
            end += 1;
        }
        let idx = case_idx * ctx.nshards as u64 + ctx.shard as u64;
        case_idx += 1;
        if ctx.begin_case(idx) {
            process_chunk(ctx, prop, &dir, &mine[start..end], n, None);
            ctx.end_case();
        }
        start = end;
    }
}

fn process_chunk(ctx: &mut Ctx, prop: Prop, dir: &Path, items: &[Item], n: usize, only: Option<&Value>) {
    let env = match implr::rustc_env() {
        Ok(e) => e,
        Err(e) => {
            ctx.machinery(e);
            return;
        }
    };
    let gdir = drv::scratch_sub(dir, "gen");
    let mut units: Vec<implr::Unit> = vec![];
    let mut comp: Vec<Compiled> = vec![];
    for it in items {
        ctx.count("items");
        let mut us = vec![];
        for cg in &it.backends {
            let text = it.dg.render(Algo::Lane, *cg);
            let out = drv::generate_in(&gdir, text.as_bytes(), &GenOpts::default());
            ctx.count("generations");
            if out.ok {
                us.push(Some(units.len()));
                units.push(implr::Unit { rs: out.rs.unwrap(), glue: it.dg.glue() });
            } else {
                if let Some(p) = &out.panic {
                    ctx.note("generator_panic_sample", json!({"grammar": text, "panic": p}));
                    ctx.count("generator_panics_seen");
                }
                ctx.count("rejected_by_lalrpop");
                us.push(None);
            }
        }
        comp.push(Compiled { item: it.clone(), units: us });
    }
    if units.is_empty() {
        return;
    }
    let bdir = dir.join("build");
    let _ = std::fs::remove_dir_all(&bdir);
    let built = match implr::build(&env, &bdir, &units, dg::V_PRELUDE) {
        Ok(b) => b,
        Err(e) => {
            ctx.machinery(format!("implr build: {}", e));
            return;
        }
    };
    for (i, e) in built.unit_errors.iter().enumerate() {
        if let Some(e) = e {
            // well-typed by construction: a rustc rejection is a finding of its own (C19's
            // business) but here it silently shrinks the corpus, so make it loud
            let which = comp.iter().find(|c| c.units.contains(&Some(i))).map(|c| c.item.dg.render(Algo::Lane, Codegen::Table)).unwrap_or_default();
            ctx.machinery(format!("generated module does not compile: {} :: {}", e, which.replace('\n', " ")));
        }
    }
    // jobs
    let mut jobs: Vec<implr::Job> = vec![];
    let mut meta: Vec<(usize, usize, Vec<u8>, Option<usize>)> = vec![]; // (comp idx, backend idx, input, injection pos)
    for (ci, c) in comp.iter().enumerate() {
        let g = &c.item.dg.skel;
        let inputs = lang::all_inputs(g.terms.max(1), n);
        for (bi, u) in c.units.iter().enumerate() {
            let Some(u) = u else { continue };
            for inp in &inputs {
                if let Some(case) = only {
                    let want: Vec<u8> = serde_json::from_value(case["input"].clone()).unwrap_or_default();
                    if &want != inp {
                        continue;
                    }
                }
                jobs.push(implr::Job { unit: *u, entry: 0, input: c.item.dg.input_string(inp) });
                meta.push((ci, bi, inp.clone(), None));
                if c.item.with_injection && inp.len() <= n.min(4) {
                    for k in 0..=inp.len() {
                        let mut s: Vec<char> = c.item.dg.input_string(inp).chars().collect();
                        s.insert(k, 'E');
                        jobs.push(implr::Job { unit: *u, entry: 0, input: s.into_iter().collect() });
                        meta.push((ci, bi, inp.clone(), Some(k)));
                    }
                }
            }
        }
    }
    let res = implr::run(&built, &jobs, 60_000);
    if std::env::var("VERIF_KEEP").is_ok() {
        let _ = std::process::Command::new("cp").arg("-r").arg(&bdir).arg(format!("/tmp/keep-{}", std::process::id())).status();
    }
    let _ = std::fs::remove_dir_all(&bdir);
    let obs: Vec<Obs> = res.iter().map(Obs::from_json).collect();
    // per comp: language + expectations
    let mut langs: Vec<Lang> = vec![];
    for c in &comp {
        langs.push(Lang::new(&c.item.dg.skel, n + 1));
    }
    // index results: (ci, bi, input, inj) -> obs
    use std::collections::HashMap;
    let mut byk: HashMap<(usize, usize, Vec<u8>, Option<usize>), &Obs> = HashMap::new();
    for (m, o) in meta.iter().zip(obs.iter()) {
        byk.insert(m.clone(), o);
    }
    for (m, o) in meta.iter().zip(obs.iter()) {
        let (ci, bi, inp, inj) = m;
        let c = &comp[*ci];
        let dgm = &c.item.dg;
        let g = &dgm.skel;
        let cg = c.item.backends[*bi];
        ctx.count("parses");
        let start = g.pubs[0];
        let has_err = g.uses_error();
        let member = langs[*ci].accepts(start, lang::from_slice(inp));
        let tree = if member && !has_err { lang::unique_tree(g, start, inp) } else { None };
        let exp: Option<Expect> = tree.as_ref().map(|t| dg::expect(dgm, t, inp.len()));
        let case = |o: &Obs| json!({"dg": dgm, "grammar": dgm.render(Algo::Lane, cg), "codegen": cg.name(), "input": inp, "inject": inj, "observed": o, "tag": c.item.tag});
        let head = format!("[{} {}] {} input {:?}{}", cg.name(), c.item.tag, g.describe(), dgm.input_string(inp), inj.map(|k| format!(" inject@{}", k)).unwrap_or_default());
        if ctx.p.samples.len() < 2 && inp.len() >= 2 && (member || inj.is_some()) && !matches!(prop, Prop::C02 | Prop::C06) {
            ctx.sample(json!({"grammar": dgm.render(Algo::Lane, cg), "codegen": cg.name(), "input": dgm.input_string(inp), "inject_at": inj, "observed": o.short()}));
        }
        if o.is_abnormal() {
            ctx.violation(&format!("{}-{}", cg.name(), o.kind.to_lowercase()), format!("{}: {}", head, o.short()), case(o));
            continue;
        }
        // grammar-independent: once a `=>?` action has returned an error (it logs FAIL_MARK + id
        // on its way out) nothing else may run and that error is the result
        if matches!(prop, Prop::C17 | Prop::C14 | Prop::C07) {
            if let Some(pos) = o.log.iter().position(|x| *x >= dg::FAIL_MARK) {
                ctx.count("failing_action_runs");
                let id = o.log[pos] - dg::FAIL_MARK;
                let want = format!("act{}", id);
                if pos + 1 != o.log.len() {
                    ctx.violation(&format!("{}-actions-after-action-error", cg.name()), format!("{}: action {} returned an error but the log goes on: {:?}", head, id, o.log), case(o));
                    continue;
                } else if o.kind != "User" || o.user.as_ref() != Some(&want) {
                    ctx.violation(&format!("{}-action-error-lost", cg.name()), format!("{}: action {} returned Err(User({})) but parse returned {}", head, id, want, o.short()), case(o));
                    continue;
                }
            }
        }
        match prop {
            Prop::C02 => {
                if let Some(e) = &exp {
                    ctx.count("accepted");
                    if e.log.len() >= 2 {
                        ctx.count("accepted_multi_action");
                    }
                    if tree_has_default(dgm, tree.as_ref().unwrap()) {
                        ctx.count("default_action_nodes");
                    }
                    if tree_has_kind(dgm, tree.as_ref().unwrap(), NtKind::Tuple) {
                        ctx.count("tuple_default_nodes");
                    }
                    if tree_has_kind(dgm, tree.as_ref().unwrap(), NtKind::Unit) {
                        ctx.count("unit_default_nodes");
                    }
                    if o.value != e.value || !o.is_ok() {
                        ctx.violation(&format!("{}-wrong-value", cg.name()), format!("{}: expected value {:?}, got {}", head, e.value, o.short()), case(o));
                    } else if o.log != e.log {
                        ctx.violation(&format!("{}-wrong-action-order", cg.name()), format!("{}: expected action log {:?}, got {:?}", head, e.log, o.log), case(o));
                    }
                    if ctx.p.samples.len() < 2 && e.log.len() >= 3 {
                        ctx.sample(json!({"grammar": dgm.render(Algo::Lane, cg), "input": dgm.input_string(inp), "value": e.value, "log": e.log}));
                    }
                }
            }
            Prop::C06 => {
                if let Some(e) = &exp {
                    let interior_ok = c.item.tag.starts_with("layout5") && dg::inlined_empty_only_interior(dgm, tree.as_ref().unwrap());
                    if e.has_inlined_empty && !interior_ok && std::env::var("VERIF_C06_UNSKIP").is_err() {
                        // spans of inlined nonterminals that derive nothing are unspecified, except
                        // for `@R` then `@L` inside one that sits between two token-deriving symbols
                        ctx.count("skipped_inlined_empty");
                        continue;
                    }
                    if e.has_inlined_empty {
                        ctx.count("inlined_empty_interior_judged");
                    }
                    ctx.count("accepted");
                    if e.nontrivial {
                        ctx.count("accepted_nontrivial_loc");
                    }
                    if o.value != e.value || !o.is_ok() {
                        ctx.violation(&format!("{}-wrong-location", cg.name()), format!("{}: expected {:?}, got {}", head, e.value, o.short()), case(o));
                    }
                    if ctx.p.samples.len() < 2 && e.nontrivial {
                        ctx.sample(json!({"grammar": dgm.render(Algo::Lane, cg), "input": dgm.input_string(inp), "value": e.value}));
                    }
                }
            }
            Prop::C07 => {
                if *bi == 0 {
                    if let Some(o2) = byk.get(&(*ci, 1, inp.clone(), *inj)) {
                        ctx.count("pairs_compared");
                        if !o.is_ok() {
                            ctx.count("pairs_rejected_input");
                        }
                        if !o.is_ok() || o.value.as_deref() != Some("") {
                            ctx.count("pairs_nontrivial");
                        }
                        if !o.same_modulo_expected(o2) {
                            ctx.violation("table-ascent-differ", format!("{}: table {} / ascent {}", head, o.short(), o2.short()), json!({"dg": dgm, "grammar": dgm.render(Algo::Lane, Codegen::Table), "input": inp, "inject": inj, "table": o, "ascent": o2}));
                        }
                    }
                }
            }
            Prop::C14 => {
                // compare with the non-inlined member of the group (mask0) and with sem
                let any_inl = tree.as_ref().map(|t| tree_has_inlined(dgm, t)).unwrap_or(false);
                if any_inl {
                    ctx.count("cases_with_inlined_node");
                }
                if dgm.inline.iter().any(|x| *x) {
                    ctx.count("inline_variant_parses");
                }
                if let Some(base_ci) = comp.iter().position(|b| b.item.group == c.item.group && !b.item.dg.inline.iter().any(|x| *x)) {
                    if base_ci != *ci {
                        if let Some(ob) = byk.get(&(base_ci, 0, inp.clone(), *inj)) {
                            // Inlined actions are deferred to their host's reduction (second
                            // sentence of the statement), so on an input where the plain grammar
                            // stops with a user error the inlined one may legitimately stop with
                            // another action's error or, for a non-sentence, with the syntax
                            // error that comes first. Everything else must be identical.
                            let differs = if ob.is_ok() {
                                !o.is_ok() || ob.value != o.value
                            } else if ob.kind == "User" {
                                if member { o.kind != "User" } else { o.is_ok() }
                            } else {
                                ob.kind != o.kind || ob.token != o.token || ob.location != o.location
                            };
                            if differs {
                                ctx.violation("inline-changes-result", format!("{}: without #[inline] {} / with {}", head, ob.short(), o.short()), case(o));
                            }
                        }
                    }
                }
                if let Some(e) = &exp {
                    // two *different* inlined nonterminals under one node: LALRPOP inlines one
                    // nonterminal at a time, the later one wraps the earlier one (known finding)
                    let multi = tree.as_ref().map(|t| tree_multi_inlined(dgm, t)).unwrap_or(false);
                    let perm = {
                        let mut a = o.log.clone();
                        let mut b = e.log.clone();
                        a.sort();
                        b.sort();
                        a == b
                    };
                    if let Some(ue) = &e.user_error {
                        if o.kind != "User" || o.user.as_ref() != Some(ue) {
                            let class = if multi && o.kind == "User" { "inline-action-order-across-nonterminals" } else { "inline-wrong-user-error" };
                            ctx.violation(class, format!("{}: expected user error {}, got {}", head, ue, o.short()), case(o));
                        } else if o.log != e.log {
                            let class = if multi { "inline-action-order-across-nonterminals" } else { "inline-wrong-action-order" };
                            ctx.violation(class, format!("{}: expected action log {:?}, got {:?}", head, e.log, o.log), case(o));
                        }
                    } else if o.value != e.value {
                        ctx.violation("inline-wrong-value", format!("{}: expected {:?}, got {}", head, e.value, o.short()), case(o));
                    } else if o.log != e.log {
                        let class = if multi && perm { "inline-action-order-across-nonterminals" } else { "inline-wrong-action-order" };
                        ctx.violation(class, format!("{}: expected action log {:?}, got {:?}", head, e.log, o.log), case(o));
                    }
                }
            }
            Prop::C17 => {
                if let Some(k) = inj {
                    ctx.count("injected_runs");
                    // the stream is inp[..k], Err, inp[k..]
                    // The parser must stop with exactly that error unless it already failed
                    // before reading item k (syntax error or action error on the prefix).
                    let want_user = format!("inj{}", k);
                    if o.kind == "User" && o.user.as_ref() == Some(&want_user) {
                        ctx.count("user_error_runs");
                        if o.pulled != k + 1 {
                            ctx.violation(&format!("{}-reads-past-stream-error", cg.name()), format!("{}: pulled {} items, the error is item #{}", head, o.pulled, k), case(o));
                        }
                        // actions that ran: prefix of the log of the same prefix parsed alone
                        if !has_err {
                            if let Some(full) = byk.get(&(*ci, *bi, inp.clone(), None)) {
                                if full.is_ok() && !full.log.starts_with(&o.log) {
                                    ctx.violation(&format!("{}-actions-after-stream-error", cg.name()), format!("{}: log {:?} is not a prefix of the error-free log {:?}", head, o.log, full.log), case(o));
                                }
                            }
                        }
                    } else {
                        // legitimate only if the parse failed before pulling item k
                        let failed_before = o.pulled <= *k && !o.is_ok();
                        if !failed_before {
                            let class = if o.is_ok() || o.kind != "User" { format!("{}-stream-error-swallowed", cg.name()) } else { format!("{}-stream-error-replaced", cg.name()) };
                            ctx.violation(&class, format!("{}: expected User({}), got {}", head, want_user, o.short()), case(o));
                        }
                    }
                } else if let Some(e) = &exp {
                    if let Some(ue) = &e.user_error {
                        ctx.count("action_error_runs");
                        ctx.count("user_error_runs");
                        if o.kind != "User" || o.user.as_ref() != Some(ue) {
                            ctx.violation(&format!("{}-action-error-lost", cg.name()), format!("{}: expected User({}), got {}", head, ue, o.short()), case(o));
                        } else {
                            // C17 says nothing runs AFTER the failing action; the order of the
                            // actions before it is C02's and C14's business (with two different
                            // inlined nonterminals in one alternative it is the recorded finding
                            // F13). So: every action that ran must be one the reference runs up
                            // to the error; the generic marker oracle above has already checked
                            // that the failing action is the last one.
                            let mut pool = e.log.clone();
                            let extra: Vec<u32> = o.log.iter().filter(|x| match pool.iter().position(|y| y == *x) { Some(i) => { pool.remove(i); false } None => true }).copied().collect();
                            if !extra.is_empty() {
                                ctx.violation(&format!("{}-actions-after-action-error", cg.name()), format!("{}: actions {:?} ran although the reference stops with log {:?} (got {:?})", head, extra, e.log, o.log), case(o));
                            }
                            if o.pulled > e.max_pulled {
                                ctx.violation(&format!("{}-reads-past-action-error", cg.name()), format!("{}: pulled {} tokens, at most {} needed", head, o.pulled, e.max_pulled), case(o));
                            }
                        }
                    } else if o.value != e.value {
                        ctx.violation(&format!("{}-wrong-value", cg.name()), format!("{}: expected {:?}, got {}", head, e.value, o.short()), case(o));
                    }
                } else if has_err && o.kind == "User" {
                    ctx.count("user_error_runs");
                    ctx.count("action_error_runs");
                    // recovery grammars: an action error must carry the id of a fallible action
                    if !o.user.as_deref().unwrap_or("").starts_with("act") {
                        ctx.violation("recovery-user-error-garbled", format!("{}: {}", head, o.short()), case(o));
                    }
                }
            }
        }
    }
    if prop == Prop::C14 {
        ctx.add("inline_variants", comp.iter().filter(|c| c.item.dg.inline.iter().any(|x| *x) && c.units[0].is_some()).count() as u64);
    }
}

fn tree_has_default(dgm: &DG, t: &lang::Tree) -> bool {
    match t {
        lang::Tree::Tok(..) => false,
        lang::Tree::Node(n, a, c) => !dgm.alts[*n][*a].style.has_action() || c.iter().any(|x| tree_has_default(dgm, x)),
    }
}
fn tree_has_kind(dgm: &DG, t: &lang::Tree, k: NtKind) -> bool {
    match t {
        lang::Tree::Tok(..) => false,
        lang::Tree::Node(n, _, c) => dgm.kind(*n) == k || c.iter().any(|x| tree_has_kind(dgm, x, k)),
    }
}
fn tree_has_inlined(dgm: &DG, t: &lang::Tree) -> bool {
    match t {
        lang::Tree::Tok(..) => false,
        lang::Tree::Node(n, _, c) => dgm.inline[*n] || c.iter().any(|x| tree_has_inlined(dgm, x)),
    }
}

/// some node has two children that are inlined occurrences of different nonterminals
fn tree_multi_inlined(dgm: &DG, t: &lang::Tree) -> bool {
    match t {
        lang::Tree::Tok(..) => false,
        lang::Tree::Node(_, _, c) => {
            let mut kinds = std::collections::BTreeSet::new();
            for x in c {
                if let lang::Tree::Node(n, _, _) = x {
                    if dgm.inline[*n] {
                        kinds.insert(*n);
                    }
                }
            }
            kinds.len() >= 2 || c.iter().any(|x| tree_multi_inlined(dgm, x))
        }
    }
}
