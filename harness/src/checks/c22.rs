//! C22: a crash during generation never leaves output that a later build accepts.
//! Fault enumeration on the REAL `lalrpop` binary (built from /repo): a kill at every
//! file-system system call (strace fault injection) and a failing/killing write at every byte
//! offset of the output (RLIMIT_FSIZE), each followed by a normal non-forced build.

use crate::fw::{CheckDef, Ctx, Tier};
use serde_json::json;
use std::os::unix::process::{CommandExt, ExitStatusExt};
use std::path::{Path, PathBuf};
use std::process::{Command, Stdio};

pub fn def() -> CheckDef {
    CheckDef {
        id: "C22",
        level: "fault_enumeration",
        rule: "scenarios = {small extern-token grammar, larger built-in-lexer grammar} x {no prior output, stale prior output (generated from another text), current output + --force} x {with, without --report}; faults: (i) SIGKILL on entry of the N-th system call among {openat, write, close, unlink, unlinkat, rename, renameat, renameat2, mkdir, mkdirat, fsync, ftruncate} for every N until the build completes unharmed (strace fault injection); (ii) RLIMIT_FSIZE = k for every byte offset k of the largest file written, once with SIGXFSZ killing the process and once with SIGXFSZ ignored so that the write fails with EFBIG; after each fault a normal non-forced build with the same options runs and the generated parser (and, with --report, the report file) must equal the reference forced build. distinct_nontrivial = fault runs after which a non-empty output file existed before the rebuild",
        evaluations: "fault_runs",
        nontrivial: "faults_leaving_partial_output",
        mc: None,
        require: &["fault_runs", "syscall_kills", "fsize_kills", "fsize_efbig", "faults_leaving_partial_output", "rebuild_ok"],
        exhaustive: true,
        assumptions: &["models process death and failing writes, not power loss with reordered unsynced blocks (LALRPOP never syncs; the statement speaks of interruption and write failure)", "strace injects the signal on system-call entry; computation between system calls has no externally visible effect"],
        shards: 0,
        run,
        crash_class: None,
    }
}

const G_SMALL: &str = "grammar;\nextern { type Location = usize; type Error = (); enum Tok { \"a\" => Tok::A } }\npub S: () = \"a\" => ();\n";
const G_SMALL2: &str = "grammar;\nextern { type Location = usize; type Error = (); enum Tok { \"a\" => Tok::A, \"b\" => Tok::B } }\npub S: () = { \"a\" \"b\" => (), \"b\" => () };\n";
const G_LEX: &str = "grammar;\npub E: i32 = { <l:E> \"+\" <r:T> => l + r, T };\nT: i32 = { r\"[0-9]+\" => 1, \"(\" <E> \")\" };\n";
const G_LEX2: &str = "grammar;\npub E: i32 = { <l:E> \"-\" <r:T> => l - r, T };\nT: i32 = { r\"[0-9]+\" => 2 };\n";

fn cli() -> PathBuf {
    crate::fw::verif_dir().join("target/cli/release/lalrpop")
}

#[derive(Clone, Debug)]
struct Scenario {
    name: String,
    text: &'static str,
    other: &'static str,
    prior: u8, // 0 none, 1 stale, 2 current + force
    report: bool,
}

fn scenarios() -> Vec<Scenario> {
    let mut v = vec![];
    for (gname, text, other) in [("small", G_SMALL, G_SMALL2), ("lexer", G_LEX, G_LEX2)] {
        for prior in 0..3u8 {
            for report in [false, true] {
                v.push(Scenario { name: format!("{}-prior{}-report{}", gname, prior, report), text, other, prior, report });
            }
        }
    }
    v
}

fn run_cli(dir: &Path, args: &[&str]) -> std::process::ExitStatus {
    Command::new(cli()).current_dir(dir).args(args).stdout(Stdio::null()).stderr(Stdio::null()).status().expect("run lalrpop cli")
}

/// reference forced build: (generated parser, report)
fn reference(base: &Path, text: &str) -> Result<(Vec<u8>, Vec<u8>), String> {
    let d = base.join("ref");
    let _ = std::fs::remove_dir_all(&d);
    std::fs::create_dir_all(&d).unwrap();
    std::fs::write(d.join("g.lalrpop"), text).unwrap();
    let st = run_cli(&d, &["-f", "--report", "g.lalrpop"]);
    if !st.success() {
        return Err(format!("reference build failed: {:?}", st));
    }
    let rs = std::fs::read(d.join("g.rs")).map_err(|e| e.to_string())?;
    let rep = std::fs::read(d.join("g.report")).map_err(|e| format!("g.report: {}", e))?;
    // the report option must not change the parser
    let _ = std::fs::remove_file(d.join("g.rs"));
    let st = run_cli(&d, &["-f", "g.lalrpop"]);
    if !st.success() || std::fs::read(d.join("g.rs")).ok().as_ref() != Some(&rs) {
        return Err("reference build with and without --report differ".to_string());
    }
    Ok((rs, rep))
}

struct Refs {
    rs: Vec<u8>,
    report: Vec<u8>,
    other_rs: Vec<u8>,
    other_report: Vec<u8>,
}

fn setup(dir: &Path, sc: &Scenario, refs: &Refs) {
    let _ = std::fs::remove_dir_all(dir);
    std::fs::create_dir_all(dir).unwrap();
    std::fs::write(dir.join("g.lalrpop"), sc.text).unwrap();
    match sc.prior {
        1 => {
            std::fs::write(dir.join("g.rs"), &refs.other_rs).unwrap();
            if sc.report {
                std::fs::write(dir.join("g.report"), &refs.other_report).unwrap();
            }
        }
        2 => {
            std::fs::write(dir.join("g.rs"), &refs.rs).unwrap();
            if sc.report {
                std::fs::write(dir.join("g.report"), &refs.report).unwrap();
            }
        }
        _ => {}
    }
}

fn build_args(sc: &Scenario) -> Vec<&'static str> {
    let mut a = vec![];
    if sc.prior == 2 {
        a.push("-f");
    }
    if sc.report {
        a.push("--report");
    }
    a.push("g.lalrpop");
    a
}

/// after the fault: normal non-forced rebuild (same options, no --force), then compare
fn rebuild_and_check(ctx: &mut Ctx, dir: &Path, sc: &Scenario, refs: &Refs, fault: &str) {
    let want: &[u8] = &refs.rs;
    let before = std::fs::read(dir.join("g.rs")).ok();
    if before.as_ref().map(|b| !b.is_empty() && b != want).unwrap_or(false) {
        ctx.count("faults_leaving_partial_output");
    }
    let report_before = std::fs::read(dir.join("g.report")).ok();
    if sc.report && report_before.as_ref().map(|b| b != &refs.report).unwrap_or(false) {
        ctx.count("faults_leaving_partial_report");
    }
    let st = if sc.report { run_cli(dir, &["--report", "g.lalrpop"]) } else { run_cli(dir, &["g.lalrpop"]) };
    let after = std::fs::read(dir.join("g.rs")).ok();
    if st.success() && after.as_deref() == Some(want) {
        if sc.report {
            // the report is an output of this build too: it must be the complete one
            let rep = std::fs::read(dir.join("g.report")).ok();
            if rep.as_ref() != Some(&refs.report) {
                let class = match &rep {
                    None => "no-report-after-rebuild",
                    Some(r) if r.len() < refs.report.len() && refs.report.starts_with(r) => "truncated-report-kept",
                    Some(_) => "wrong-report-after-rebuild",
                };
                ctx.violation(class, format!("scenario {} fault {}: after a normal rebuild with --report the report has {} bytes (reference {})", sc.name, fault, rep.as_ref().map(|a| a.len() as i64).unwrap_or(-1), refs.report.len()), json!({"scenario": sc.name, "fault": fault, "grammar": sc.text, "report_left_by_fault_len": report_before.map(|b| b.len())}));
                return;
            }
        }
        ctx.count("rebuild_ok");
        return;
    }
    let class = match &after {
        None => "no-output-after-rebuild",
        Some(a) if a.len() < want.len() && want.starts_with(a) => "truncated-output-accepted",
        Some(_) => "wrong-output-after-rebuild",
    };
    ctx.violation(class, format!("scenario {} fault {}: after a normal rebuild the output has {} bytes (reference {}), status {:?}", sc.name, fault, after.as_ref().map(|a| a.len() as i64).unwrap_or(-1), want.len(), st.code()), json!({"scenario": sc.name, "fault": fault, "grammar": sc.text, "left_by_fault_len": before.map(|b| b.len())}));
}

fn run(ctx: &mut Ctx) {
    let base = ctx.scratch.clone();
    if !cli().exists() {
        ctx.machinery(format!("lalrpop CLI not built at {}", cli().display()));
        return;
    }
    let strace_ok = Command::new("strace").arg("-V").stdout(Stdio::null()).stderr(Stdio::null()).status().map(|s| s.success()).unwrap_or(false);
    if !strace_ok {
        ctx.machinery("strace not available".to_string());
        return;
    }
    let thorough = ctx.tier == Tier::Thorough;
    let mut scs = scenarios();
    if !thorough && ctx.replay.is_none() {
        // quick: four scenarios that cover {no, stale, current+force} prior output, both
        // grammars and --report
        scs.retain(|s| ["small-prior0-reportfalse", "small-prior1-reportfalse", "small-prior2-reporttrue", "lexer-prior1-reporttrue"].contains(&s.name.as_str()));
    }
    let mut case = 0u64;
    for (si, sc) in scs.iter().enumerate() {
        if let Some(r) = &ctx.replay {
            if r["scenario"].as_str() != Some(&sc.name) {
                continue;
            }
        }
        let (want, want_report) = match reference(&base, sc.text) {
            Ok(w) => w,
            Err(e) => {
                ctx.machinery(e);
                return;
            }
        };
        let (other, other_report) = match reference(&base, sc.other) {
            Ok(w) => w,
            Err(e) => {
                ctx.machinery(e);
                return;
            }
        };
        let refs = Refs { rs: want.clone(), report: want_report.clone(), other_rs: other, other_report };
        let dir = base.join("w");
        let args = build_args(sc);
        // (i) kill at the N-th system call
        let mut n = 1 + ctx.shard as u64;
        loop {
            case += 1;
            if !ctx.begin_case((si as u64) << 32 | n) {
                n += ctx.nshards as u64;
                continue;
            }
            setup(&dir, sc, &refs);
            let inject = format!("inject=openat,write,close,unlink,unlinkat,rename,renameat,renameat2,mkdir,mkdirat,fsync,ftruncate:signal=SIGKILL:when={}", n);
            let st = Command::new("strace").current_dir(&dir).args(["-f", "-qq", "-o", "/dev/null", "-e", "trace=openat,write,close,unlink,unlinkat,rename,renameat,renameat2,mkdir,mkdirat,fsync,ftruncate", "-e", &inject]).arg(cli()).args(&args).stdout(Stdio::null()).stderr(Stdio::null()).status();
            let st = match st {
                Ok(s) => s,
                Err(e) => {
                    ctx.machinery(format!("strace: {}", e));
                    return;
                }
            };
            ctx.end_case();
            let killed = st.signal() == Some(9) || st.code() == Some(137);
            if !killed {
                if !st.success() {
                    ctx.machinery(format!("scenario {}: unharmed build under strace failed: {:?}", sc.name, st));
                }
                break;
            }
            ctx.count("fault_runs");
            ctx.count("syscall_kills");
            ctx.max("max_syscall_index", n);
            rebuild_and_check(ctx, &dir, sc, &refs, &format!("SIGKILL at syscall #{}", n));
            n += ctx.nshards as u64;
            if n > 5000 {
                ctx.machinery("more than 5000 system calls?".to_string());
                break;
            }
        }
        // (ii) RLIMIT_FSIZE at every byte
        let largest = if sc.report { want.len().max(want_report.len()) } else { want.len() };
        let limit = largest as u64 + 64;
        // byte offsets: thorough = every byte for the small grammar, every 7th for the larger
        // one; quick = every byte of the first 256 (the header lines), every 251st after that,
        // and the last bytes
        let offsets: Vec<u64> = (0..=limit)
            .filter(|k| {
                if thorough {
                    sc.name.starts_with("small") || k % 7 == 0 || *k < 256 || (*k + 8 > want.len() as u64 && *k < want.len() as u64 + 8) || *k + 8 > largest as u64
                } else {
                    *k < 256 || k % 251 == 0 || (*k + 4 > want.len() as u64 && *k < want.len() as u64 + 3) || (sc.report && *k + 4 > want_report.len() as u64 && *k < want_report.len() as u64 + 3)
                }
            })
            .collect();
        for (oi, &k) in offsets.iter().enumerate() {
            if oi % ctx.nshards != ctx.shard {
                continue;
            }
            for ignore in [false, true] {
                case += 1;
                setup(&dir, sc, &refs);
                let mut c = Command::new(cli());
                c.current_dir(&dir).args(&args).stdout(Stdio::null()).stderr(Stdio::null());
                unsafe {
                    c.pre_exec(move || {
                        let lim = libc::rlimit { rlim_cur: k, rlim_max: k };
                        libc::setrlimit(libc::RLIMIT_FSIZE, &lim);
                        if ignore {
                            libc::signal(libc::SIGXFSZ, libc::SIG_IGN);
                        }
                        Ok(())
                    });
                }
                let st = c.status().expect("run cli under rlimit");
                ctx.count("fault_runs");
                if st.signal().is_some() {
                    ctx.count("fsize_kills");
                } else if !st.success() {
                    ctx.count("fsize_efbig");
                } else {
                    ctx.count("fsize_no_effect");
                }
                if st.code() == Some(101) {
                    ctx.count("cli_panics_on_write_error");
                }
                rebuild_and_check(ctx, &dir, sc, &refs, &format!("RLIMIT_FSIZE={} sigxfsz_ignored={}", k, ignore));
            }
        }
        if ctx.p.samples.len() < 2 {
            ctx.sample(json!({"scenario": sc.name, "args": args, "reference_bytes": want.len()}));
        }
    }
    let _ = case;
}
