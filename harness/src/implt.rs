//! Impl-T: the lifted tables executed by the REAL `lalrpop_util::state_machine::Parser`.
//! The glue mirrored here (index the tables, pop/push, spans of reductions, `accepts`-based
//! expected tokens) is what the generated `__StateMachine` does; it is bound to the compiled
//! generated parser by the conformance replay in the checks that use it.

use crate::lift::{Reduce, Tables};
use lalrpop_util::ParseError;
use lalrpop_util::state_machine::{ErrorRecovery, ParseResult, ParserDefinition, SimulatedReduce, SymbolTriple};
use std::cell::{Cell, RefCell};
use std::collections::HashSet;

#[derive(Clone, Debug, PartialEq)]
pub enum TNode {
    Tok { kind: usize, l: usize, r: usize },
    Nt { reduce: usize, children: Vec<TNode>, l: usize, r: usize },
    Error { l: usize, r: usize, dropped: Vec<(usize, usize, usize)>, on_token: Option<(usize, usize, usize)>, expected: Vec<String> },
}

impl TNode {
    pub fn span(&self) -> (usize, usize) {
        match self {
            TNode::Tok { l, r, .. } | TNode::Nt { l, r, .. } | TNode::Error { l, r, .. } => (*l, *r),
        }
    }
    pub fn sexp(&self, t: &Tables) -> String {
        match self {
            TNode::Tok { kind, .. } => format!("t{}", kind),
            TNode::Nt { reduce, children, .. } => {
                let name = t.prod_text[*reduce].as_ref().map(|p| p.0.clone()).unwrap_or_default();
                format!("({}#{}{})", name, reduce, children.iter().map(|c| format!(" {}", c.sexp(t))).collect::<String>())
            }
            TNode::Error { l, r, dropped, .. } => format!("!{{{}..{} drop={}}}", l, r, dropped.len()),
        }
    }
    pub fn count_errors(&self) -> usize {
        match self {
            TNode::Tok { .. } => 0,
            TNode::Error { .. } => 1,
            TNode::Nt { children, .. } => children.iter().map(|c| c.count_errors()).sum(),
        }
    }
}

pub struct Stats {
    pub steps: Cell<u64>,
    pub reduces: Cell<u64>,
    /// distinct (stack hash) configurations seen; filled when `track_states`
    pub configs: RefCell<HashSet<u64>>,
    pub track: bool,
    /// expected-token simulation (`accepts`): most reductions simulated in one call, and whether
    /// some call reduced twice in the same state (both since the last reset)
    pub acc_reduces: Cell<u64>,
    pub acc_repeat: Cell<bool>,
}

pub struct Def<'a> {
    pub t: &'a Tables,
    /// token kind -> terminal index (None: unknown token)
    pub tok_idx: &'a [Option<usize>],
    pub stats: &'a Stats,
}

impl<'a> Def<'a> {
    fn act(&self, state: i32, col: usize) -> i32 {
        self.stats.steps.set(self.stats.steps.get() + 1);
        self.t.action[state as usize * self.t.k + col]
    }
    fn goto_(&self, state: i32, nt: usize) -> i32 {
        match self.t.goto.get(nt) {
            None => 0,
            Some((ov, d)) => {
                for (lo, hi, tgt) in ov {
                    if state >= *lo && state <= *hi {
                        return *tgt;
                    }
                }
                if *d < 0 { 0 } else { *d }
            }
        }
    }
    /// mirror of the generated `__accepts(None, states, opt_integer)`
    fn accepts(&self, states: &[i32], opt: Option<usize>) -> bool {
        let mut states = states.to_vec();
        let mut reduced_in: Vec<i32> = vec![];
        loop {
            let mut len = states.len();
            let top = states[len - 1];
            let action = match opt {
                None => self.t.eof_action[top as usize],
                Some(i) => self.t.action[top as usize * self.t.k + i],
            };
            if action == 0 {
                return false;
            }
            if action > 0 {
                return true;
            }
            match &self.t.reduces[(-(action + 1)) as usize] {
                Reduce::Accept => return true,
                Reduce::Reduce { pop, nt } => {
                    if reduced_in.contains(&top) {
                        self.stats.acc_repeat.set(true);
                    }
                    reduced_in.push(top);
                    self.stats.acc_reduces.set(self.stats.acc_reduces.get().max(reduced_in.len() as u64));
                    len -= pop;
                    states.truncate(len);
                    let top = states[len - 1];
                    states.push(self.goto_(top, *nt));
                }
            }
        }
    }
}

impl<'a> ParserDefinition for Def<'a> {
    type Location = usize;
    type Error = String;
    type Token = usize;
    type TokenIndex = usize;
    type Symbol = TNode;
    type Success = TNode;
    type StateIndex = i32;
    type Action = i32;
    type ReduceIndex = i32;
    type NonterminalIndex = usize;

    fn start_location(&self) -> usize {
        Default::default()
    }
    fn start_state(&self) -> i32 {
        0
    }
    fn token_to_index(&self, token: &usize) -> Option<usize> {
        self.tok_idx.get(*token).copied().flatten()
    }
    fn action(&self, state: i32, integer: usize) -> i32 {
        self.act(state, integer)
    }
    fn error_action(&self, state: i32) -> i32 {
        self.act(state, self.t.error_col)
    }
    fn eof_action(&self, state: i32) -> i32 {
        self.stats.steps.set(self.stats.steps.get() + 1);
        self.t.eof_action[state as usize]
    }
    fn goto(&self, state: i32, nt: usize) -> i32 {
        self.goto_(state, nt)
    }
    fn token_to_symbol(&self, _token_index: usize, token: usize) -> TNode {
        // the span is filled in by the driver (it keeps (l, sym, r) triples); we keep kind only
        TNode::Tok { kind: token, l: 0, r: 0 }
    }
    fn expected_tokens(&self, state: i32) -> Vec<String> {
        self.t.terminals.iter().enumerate().filter(|(i, _)| self.t.action[state as usize * self.t.k + i] != 0).map(|(_, s)| s.clone()).collect()
    }
    fn expected_tokens_from_states(&self, states: &[i32]) -> Vec<String> {
        self.t.terminals.iter().enumerate().filter(|(i, _)| self.accepts(states, Some(*i))).map(|(_, s)| s.clone()).collect()
    }
    fn uses_error_recovery(&self) -> bool {
        self.t.uses_error_recovery
    }
    fn error_recovery_symbol(&self, recovery: ErrorRecovery<Self>) -> TNode {
        let (on_token, expected) = match &recovery.error {
            ParseError::UnrecognizedToken { token, expected } => (Some((token.0, token.1, token.2)), expected.clone()),
            ParseError::UnrecognizedEof { expected, .. } => (None, expected.clone()),
            _ => (None, vec![]),
        };
        TNode::Error { l: 0, r: 0, dropped: recovery.dropped_tokens.iter().map(|(l, t, r)| (*l, *t, *r)).collect(), on_token, expected }
    }
    fn reduce(&mut self, action: i32, start_location: Option<&usize>, states: &mut Vec<i32>, symbols: &mut Vec<SymbolTriple<Self>>) -> Option<ParseResult<Self>> {
        self.stats.steps.set(self.stats.steps.get() + 1);
        self.stats.reduces.set(self.stats.reduces.get() + 1);
        if self.stats.track {
            let mut h = std::collections::hash_map::DefaultHasher::new();
            use std::hash::{Hash, Hasher};
            states.hash(&mut h);
            symbols.len().hash(&mut h);
            self.stats.configs.borrow_mut().insert(h.finish());
        }
        let fix = |(l, s, r): SymbolTriple<Self>| -> TNode {
            match s {
                TNode::Tok { kind, .. } => TNode::Tok { kind, l, r },
                TNode::Error { dropped, on_token, expected, .. } => TNode::Error { l, r, dropped, on_token, expected },
                n => n,
            }
        };
        match &self.t.reduces[action as usize] {
            Reduce::Accept => {
                let s = symbols.pop().expect("accept with empty stack");
                Some(Ok(fix(s)))
            }
            Reduce::Reduce { pop, nt } => {
                let n = symbols.len();
                assert!(n >= *pop, "symbol stack underflow");
                let popped: Vec<SymbolTriple<Self>> = symbols.drain(n - pop..).collect();
                let (l, r) = if popped.is_empty() {
                    let s = start_location.cloned().or_else(|| symbols.last().map(|s| s.2)).unwrap_or_default();
                    (s, s)
                } else {
                    (popped[0].0, popped[popped.len() - 1].2)
                };
                let children: Vec<TNode> = popped.into_iter().map(fix).collect();
                symbols.push((l, TNode::Nt { reduce: action as usize, children, l, r }, r));
                let len = states.len();
                states.truncate(len - pop);
                let top = *states.last().unwrap();
                states.push(self.goto_(top, *nt));
                None
            }
        }
    }
    fn simulate_reduce(&self, action: i32) -> SimulatedReduce<Self> {
        match &self.t.reduces[action as usize] {
            Reduce::Accept => SimulatedReduce::Accept,
            Reduce::Reduce { pop, nt } => SimulatedReduce::Reduce { states_to_pop: *pop, nonterminal_produced: *nt },
        }
    }
}

/// Outcome of one Impl-T run, in the rendering shared with Impl-R (DESIGN A.1).
#[derive(Clone, Debug, PartialEq)]
pub enum Outcome {
    Ok(TNode),
    UnrecognizedToken { token: (usize, usize, usize), expected: Vec<String> },
    UnrecognizedEof { location: usize, expected: Vec<String> },
    ExtraToken { token: (usize, usize, usize) },
    InvalidToken { location: usize },
    User(String),
    Panic(String),
}

pub struct Run {
    pub outcome: Outcome,
    pub pulled: usize,
    pub steps: u64,
}

/// Run the lifted parser over tokens (l, kind, r). `pulled` counts `next()` calls that
/// returned a token (the final `None` is not counted).
pub fn run_tokens(t: &Tables, tok_idx: &[Option<usize>], tokens: &[(usize, usize, usize)], stats: &Stats) -> Run {
    let pulled = Cell::new(0usize);
    let it = tokens.iter().map(|x| {
        pulled.set(pulled.get() + 1);
        Ok::<_, ParseError<usize, usize, String>>(*x)
    });
    let before = stats.steps.get();
    let res = std::panic::catch_unwind(std::panic::AssertUnwindSafe(|| lalrpop_util::state_machine::Parser::drive(Def { t, tok_idx, stats }, it)));
    let outcome = match res {
        Err(_) => Outcome::Panic(crate::drv::take_last_panic().unwrap_or_default()),
        Ok(Ok(n)) => Outcome::Ok(n),
        Ok(Err(e)) => match e {
            ParseError::UnrecognizedToken { token, expected } => Outcome::UnrecognizedToken { token, expected },
            ParseError::UnrecognizedEof { location, expected } => Outcome::UnrecognizedEof { location, expected },
            ParseError::ExtraToken { token } => Outcome::ExtraToken { token },
            ParseError::InvalidToken { location } => Outcome::InvalidToken { location },
            ParseError::User { error } => Outcome::User(error),
        },
    };
    Run { outcome, pulled: pulled.get(), steps: stats.steps.get() - before }
}

pub fn new_stats(track: bool) -> Stats {
    Stats { steps: Cell::new(0), reduces: Cell::new(0), configs: RefCell::new(HashSet::new()), track, acc_reduces: Cell::new(0), acc_repeat: Cell::new(false) }
}

/// token span convention of DESIGN §4: token i has span (10 i + 3, 10 i + 7)
pub fn gapped(kinds: &[u8]) -> Vec<(usize, usize, usize)> {
    kinds.iter().enumerate().map(|(i, k)| (10 * i + 3, *k as usize, 10 * i + 7)).collect()
}

/// map for extern grammars rendered by gram::extern_block: pattern `Tok::T{t}` -> index
pub fn extern_tok_idx(t: &Tables, nkinds: usize) -> Vec<Option<usize>> {
    (0..nkinds).map(|k| t.token_index.iter().find(|(p, _)| p == &format!("Tok::T{}", k)).map(|(_, i)| *i)).collect()
}
