//! Decorated grammars (F-act, F-loc, F-inl): a plain CFG skeleton plus, per alternative, an
//! action style and `@L`/`@R` marks, per nonterminal an `#[inline]` flag. Renderer to LALRPOP
//! text and the `sem` oracle: documented action/location semantics evaluated over the unique
//! derivation tree (value string, action log, user error).

use crate::gram::{self, Algo, Cfg, Codegen, Sym};
use crate::lang::Tree;
use serde::{Deserialize, Serialize};
use std::fmt::Write;

#[derive(Clone, Copy, PartialEq, Eq, Debug, Serialize, Deserialize)]
pub enum Style {
    /// every symbol named, user action over the names
    Named,
    /// plain symbols, user action ignoring them
    Anon,
    /// plain symbols, user action over `<>` (= all symbols)
    AngleAll,
    /// symbols in `mask` selected with `<X>`, user action over `<>` (= the selected ones)
    AngleSel(u8),
    /// `<mut v:X>` on every symbol, user action that moves them
    Mut,
    /// every symbol named (tuple patterns for tuple-valued children), user action over `<>`
    /// (= all the named bindings, in order)
    NamedAngle,
    /// no action; the symbol at this position is selected with `<X>` (must be a nonterminal)
    DefaultSel(u8),
    /// no action, a single nonterminal symbol, no angle brackets
    DefaultOnly,
    /// `=>?` action: Err(User) when a direct terminal child is the marker token, else Ok
    Fallible,
}

/// a failing `=>?` action logs `FAIL_MARK + id` just before it returns its error: whatever the
/// grammar, an execution in which this entry is not the last one, or whose result is not that
/// very error, violates C17
pub const FAIL_MARK: u32 = 100_000;

impl Style {
    pub fn has_action(self) -> bool {
        !matches!(self, Style::DefaultSel(_) | Style::DefaultOnly)
    }
}

#[derive(Clone, PartialEq, Eq, Debug, Serialize, Deserialize)]
pub struct DAlt {
    pub style: Style,
    /// (gap, is_lookahead): `@L`/`@R` placed before symbol `gap` (gap = len: at the end)
    pub marks: Vec<(u8, bool)>,
}

/// how a nonterminal gets its value
#[derive(Clone, Copy, PartialEq, Eq, Debug, Serialize, Deserialize, Default)]
pub enum NtKind {
    /// declared `: V`, alternatives styled by `DAlt`
    #[default]
    Value,
    /// no type annotation, one alternative of 2..3 symbols without action and without `<>`: the
    /// documented default is the tuple of all symbols; users bind it with `<(a, b):N>`
    Tuple,
    /// declared `: ()`, alternatives without actions: the documented default is `()`
    Unit,
}

#[derive(Clone, PartialEq, Eq, Debug, Serialize, Deserialize)]
pub struct DG {
    pub skel: Cfg,
    pub inline: Vec<bool>,
    pub alts: Vec<Vec<DAlt>>,
    /// terminal rendered as Tok::Mark (fallible actions fail on it)
    pub mark_term: Option<u8>,
    /// per nonterminal (empty = all `Value`)
    #[serde(default)]
    pub kinds: Vec<NtKind>,
}

impl DG {
    pub fn plain(skel: &Cfg, style: Style) -> DG {
        DG { skel: skel.clone(), inline: vec![false; skel.nts], alts: skel.alts.iter().map(|a| a.iter().map(|_| DAlt { style, marks: vec![] }).collect()).collect(), mark_term: None, kinds: vec![] }
    }
    pub fn kind(&self, n: usize) -> NtKind {
        self.kinds.get(n).copied().unwrap_or_default()
    }
    pub fn alt_id(&self, nt: usize, ai: usize) -> u32 {
        (self.skel.alts[..nt].iter().map(|a| a.len()).sum::<usize>() + ai) as u32
    }
    /// styles applicable to an alternative of this shape
    pub fn menu(rhs: &[Sym], with_fallible: bool) -> Vec<Style> {
        let mut m = vec![];
        for (i, s) in rhs.iter().enumerate() {
            if matches!(s, Sym::N(_)) && rhs.len() >= 2 {
                m.push(Style::DefaultSel(i as u8));
            }
        }
        if rhs.len() == 1 && matches!(rhs[0], Sym::N(_)) {
            m.push(Style::DefaultOnly);
        }
        m.push(Style::Named);
        if rhs.len() >= 2 {
            m.push(Style::AngleSel(1));
            m.push(Style::AngleSel(1 << (rhs.len() - 1)));
        }
        if rhs.len() >= 3 {
            m.push(Style::AngleSel(0b101));
        }
        m.extend([Style::AngleAll, Style::Anon, Style::Mut, Style::NamedAngle]);
        if with_fallible {
            m.push(Style::Fallible);
        }
        m
    }
    pub fn tok_pattern(&self, t: u8) -> String {
        if self.mark_term == Some(t) { "Tok::Mark".to_string() } else { format!("Tok::T{}", t) }
    }
    pub fn input_char(&self, t: u8) -> char {
        if self.mark_term == Some(t) { 'm' } else { (b'0' + t) as char }
    }
    pub fn input_string(&self, kinds: &[u8]) -> String {
        kinds.iter().map(|k| self.input_char(*k)).collect()
    }

    pub fn render(&self, algo: Algo, cg: Codegen) -> String {
        let g = &self.skel;
        let mut s = String::new();
        s.push_str("use super::{Tok, V, log, ToV, Vs};\nuse lalrpop_util::ParseError;\n");
        s.push_str(&gram::grammar_attrs(algo, cg));
        s.push_str("grammar;\n");
        s.push_str("extern {\n    type Location = usize;\n    type Error = String;\n    enum Tok {\n");
        for t in 0..g.terms.max(1) {
            let _ = writeln!(s, "        \"{}\" => {},", gram::TNAMES[t], self.tok_pattern(t as u8));
        }
        s.push_str("    }\n}\n");
        for n in 0..g.nts {
            if self.inline[n] {
                s.push_str("#[inline]\n");
            }
            let ty = match self.kind(n) {
                NtKind::Value => ": V",
                NtKind::Tuple => "",
                NtKind::Unit => ": ()",
            };
            let _ = writeln!(s, "{}{}{} = {{", if g.pubs.contains(&n) { "pub " } else { "" }, Cfg::nt_name(n), ty);
            for (ai, rhs) in g.alts[n].iter().enumerate() {
                if self.kind(n) == NtKind::Value {
                    let _ = writeln!(s, "    {},", self.render_alt(n, ai, rhs));
                } else {
                    // no action, no selection: the documented default value
                    let _ = writeln!(s, "    {},", rhs.iter().map(|x| Cfg::sym_text(*x)).collect::<Vec<_>>().join(" "));
                }
            }
            s.push_str("};\n");
        }
        s
    }

    fn render_alt(&self, n: usize, ai: usize, rhs: &[Sym]) -> String {
        let d = &self.alts[n][ai];
        let id = self.alt_id(n, ai);
        let mut items: Vec<String> = vec![];
        let mut names: Vec<String> = vec![];
        let named = matches!(d.style, Style::Named | Style::Fallible | Style::Mut | Style::NamedAngle);
        let mut mk = 0;
        for gap in 0..=rhs.len() {
            for (g, is_l) in &d.marks {
                if *g as usize == gap {
                    let at = if *is_l { "@L" } else { "@R" };
                    if named {
                        let nm = format!("m{}", mk);
                        items.push(format!("<{}{}:{}>", if d.style == Style::Mut { "mut " } else { "" }, nm, at));
                        names.push(nm);
                    } else {
                        items.push(at.to_string());
                    }
                    mk += 1;
                }
            }
            if gap < rhs.len() {
                let st = Cfg::sym_text(rhs[gap]);
                // a tuple-valued child is bound with a tuple pattern `<(a, b):N>`
                let tuple_arity = match rhs[gap] {
                    Sym::N(m) if self.kind(m as usize) == NtKind::Tuple => Some(self.skel.alts[m as usize][0].len()),
                    _ => None,
                };
                match d.style {
                    Style::Named | Style::Fallible | Style::NamedAngle if tuple_arity.is_some() => {
                        let parts: Vec<String> = (0..tuple_arity.unwrap()).map(|k| format!("t{}_{}", gap, k)).collect();
                        items.push(format!("<({}):{}>", parts.join(", "), st));
                        names.push(format!("({})", parts.join(", ")));
                    }
                    Style::Named | Style::Fallible | Style::NamedAngle => {
                        let nm = format!("v{}", gap);
                        items.push(format!("<{}:{}>", nm, st));
                        names.push(nm);
                    }
                    Style::Mut => {
                        let nm = format!("v{}", gap);
                        items.push(format!("<mut {}:{}>", nm, st));
                        names.push(nm);
                    }
                    Style::AngleSel(mask) => {
                        if mask & (1 << gap) != 0 {
                            items.push(format!("<{}>", st));
                        } else {
                            items.push(st);
                        }
                    }
                    Style::DefaultSel(p) => {
                        if p as usize == gap {
                            items.push(format!("<{}>", st));
                        } else {
                            items.push(st);
                        }
                    }
                    _ => items.push(st),
                }
            }
        }
        let body = items.join(" ");
        let vec_of = |names: &[String]| format!("vec![{}]", names.iter().map(|n| format!("{}.v()", n)).collect::<Vec<_>>().join(", "));
        match d.style {
            Style::Named => format!("{} => {{ log({}); V::n({}, {}) }}", body, id, id, vec_of(&names)),
            Style::Mut => {
                let touch: String = names.iter().map(|n| format!("{} = {}.clone(); ", n, n)).collect();
                format!("{} => {{ log({}); {}V::n({}, {}) }}", body, id, touch, id, vec_of(&names))
            }
            Style::Anon => format!("{} => {{ log({}); V::n({}, vec![]) }}", body, id, id),
            // `vs![..]` converts each expression of the `<>` expansion separately, so a single
            // tuple-valued symbol is not confused with several symbols
            Style::AngleAll | Style::AngleSel(_) | Style::NamedAngle => format!("{} => {{ log({}); V::n({}, vs![<>]) }}", body, id, id),
            Style::DefaultSel(_) | Style::DefaultOnly => body,
            Style::Fallible => format!(
                "{} =>? {{ log({}); let vs: Vec<V> = {}; if vs.iter().any(|v| v.is_mark()) {{ log({}); Err(ParseError::User {{ error: \"act{}\".to_string() }}) }} else {{ Ok(V::n({}, vs)) }} }}",
                body,
                id,
                vec_of(&names),
                FAIL_MARK + id,
                id,
                id
            ),
        }
    }

    pub fn glue(&self) -> String {
        let mut s = String::from("pub fn run(entry: usize, input: &str) -> String {\n    let t = counting(toks(input).into_iter());\n    match entry {\n");
        for (e, n) in self.skel.pubs.iter().enumerate() {
            let _ = writeln!(s, "        {} => render({}Parser::new().parse(t).map(|v| v.show())),", e, Cfg::nt_name(*n));
        }
        s.push_str("        _ => panic!(\"no such entry\"),\n    }\n}\n");
        s
    }
}

// ---------------------------------------------------------------------------------------
// sem: expected value / log / error for a derivation tree

#[derive(Clone, Debug, PartialEq)]
pub enum Val {
    T(u8),
    L(usize),
    N(u32, Vec<Val>),
}

impl Val {
    pub fn show(&self, dg: &DG) -> String {
        match self {
            Val::T(t) => {
                if dg.mark_term == Some(*t) {
                    "Mark".to_string()
                } else {
                    format!("T{}", t)
                }
            }
            Val::L(l) => format!("@{}", l),
            Val::N(id, c) => format!("({}{})", id, c.iter().map(|x| format!(" {}", x.show(dg))).collect::<String>()),
        }
    }
}

#[derive(Clone, Debug)]
pub struct Expect {
    pub value: Option<String>,
    pub user_error: Option<String>,
    pub log: Vec<u32>,
    /// upper bound on tokens pulled when an action fails (usize::MAX when none fails)
    pub max_pulled: usize,
    /// did the tree contain an empty derivation, a mark fallback, or an inlined node?
    pub nontrivial: bool,
    /// the tree has an inlined node that derives no tokens: the statement leaves the span of
    /// such a node (and hence marks next to it) unspecified
    pub has_inlined_empty: bool,
}

/// span of a tree node given the token spans (token i = (10i+3, 10i+7)) and the position
/// `next_tok` (index of the next input token after this node's last token), `ntoks` total.
fn empty_pos(next_tok: usize, ntoks: usize) -> usize {
    // start of the next input token; at end of input the end of the last consumed symbol
    // (= end of the last token, since every consumed symbol ends there), else default 0
    if next_tok < ntoks {
        10 * next_tok + 3
    } else if ntoks > 0 {
        10 * (ntoks - 1) + 7
    } else {
        0
    }
}

struct Ev<'a> {
    dg: &'a DG,
    ntoks: usize,
    log: Vec<u32>,
    failed: Option<(String, usize)>,
    nontrivial: bool,
}

enum PA {
    Done(Val),
    Inl(Vec<PA>),
}

impl<'a> Ev<'a> {
    /// (start of the first child, end of the last child); a node deriving nothing sits at the
    /// start of the next input token (end of input: end of the last token, else default)
    fn span(&self, t: &Tree, at: usize) -> (usize, usize) {
        match t {
            Tree::Tok(..) => (10 * at + 3, 10 * at + 7),
            Tree::Node(_, _, children) => {
                if t.ntoks() == 0 {
                    let p = empty_pos(at, self.ntoks);
                    return (p, p);
                }
                let first = self.span(&children[0], at).0;
                let before_last: usize = children[..children.len() - 1].iter().map(|c| c.ntoks()).sum();
                let last = self.span(&children[children.len() - 1], at + before_last).1;
                (first, last)
            }
        }
    }

    /// spans of the symbols of `t`'s alternative after splicing in inlined children
    fn flat(&self, t: &Tree, at: usize) -> Vec<(usize, usize)> {
        let Tree::Node(_, _, children) = t else { return vec![self.span(t, at)] };
        let mut out = vec![];
        let mut pos = at;
        for c in children {
            match c {
                Tree::Node(cn, _, _) if self.dg.inline[*cn] => out.extend(self.flat(c, pos)),
                _ => out.push(self.span(c, pos)),
            }
            pos += c.ntoks();
        }
        out
    }

    fn eval(&mut self, t: &Tree, at: usize) -> Option<Val> {
        match t {
            Tree::Tok(k, _) => Some(Val::T(*k)),
            Tree::Node(nt, _ai, _children) => {
                debug_assert!(!self.dg.inline[*nt]);
                let pa = self.phase_a(t, at)?;
                let e = empty_pos(at, self.ntoks);
                self.phase_b(t, at, pa, (e, e), at + t.ntoks())
            }
        }
    }

    /// parse-time phase: everything that is reduced while parsing below `t` (the non-inlined
    /// descendants), in input order
    fn phase_a(&mut self, t: &Tree, at: usize) -> Option<Vec<PA>> {
        let Tree::Node(_, _, children) = t else { unreachable!() };
        let mut out = vec![];
        let mut pos = at;
        for c in children {
            if self.failed.is_some() {
                return None;
            }
            match c {
                Tree::Tok(k, _) => out.push(PA::Done(Val::T(*k))),
                Tree::Node(cn, _, _) => {
                    if self.dg.inline[*cn] {
                        self.nontrivial = true;
                        out.push(PA::Inl(self.phase_a(c, pos)?));
                    } else {
                        out.push(PA::Done(self.eval(c, pos)?));
                    }
                }
            }
            pos += c.ntoks();
        }
        if self.failed.is_some() {
            return None;
        }
        Some(out)
    }

    /// reduce-time phase for node `t`: inlined children's actions left to right (nested
    /// first), then the node's own action. `ctx` = (lookbehind, lookahead) handed to the
    /// action when the alternative has no symbols after inlining; `reduce_end` = number of
    /// tokens consumed when the enclosing non-inlined reduction runs.
    fn phase_b(&mut self, t: &Tree, at: usize, pa: Vec<PA>, ctx: (usize, usize), reduce_end: usize) -> Option<Val> {
        let Tree::Node(nt, ai, children) = t else { unreachable!() };
        let flat = self.flat(t, at);
        let fl = flat.len();
        // fb[i] = flat symbols before direct child i
        let mut fb = vec![0usize; children.len() + 1];
        {
            let mut pos = at;
            for (i, c) in children.iter().enumerate() {
                let k = match c {
                    Tree::Node(cn, _, _) if self.dg.inline[*cn] => self.flat(c, pos).len(),
                    _ => 1,
                };
                fb[i + 1] = fb[i] + k;
                pos += c.ntoks();
            }
        }
        let lookahead_at = |k: usize| -> usize {
            if k < fl {
                flat[k].0
            } else if fl > 0 {
                flat[fl - 1].1
            } else {
                ctx.1
            }
        };
        let lookbehind_at = |k: usize| -> usize {
            if k >= 1 {
                flat[k - 1].1
            } else if fl > 0 {
                flat[0].0
            } else {
                ctx.0
            }
        };
        let mut vals: Vec<Val> = vec![];
        let mut pos = at;
        for (i, (c, p)) in children.iter().zip(pa.into_iter()).enumerate() {
            let v = match p {
                PA::Done(v) => v,
                PA::Inl(inner) => {
                    let cctx = (lookbehind_at(fb[i]), lookahead_at(fb[i + 1]));
                    self.phase_b(c, pos, inner, cctx, reduce_end)?
                }
            };
            vals.push(v);
            pos += c.ntoks();
        }
        if children.iter().any(|c| c.ntoks() == 0) || children.is_empty() {
            self.nontrivial = true;
        }
        match self.dg.kind(*nt) {
            NtKind::Value => {}
            // tuple of all symbols (codes as in the prelude's ToV impls), no action runs
            NtKind::Tuple => return Some(Val::N(902 + children.len() as u32, vals)),
            NtKind::Unit => return Some(Val::N(903, vec![])),
        }
        let d = &self.dg.alts[*nt][*ai];
        let id = self.dg.alt_id(*nt, *ai);
        let m = children.len();
        let mut items: Vec<Val> = vec![];
        for gap in 0..=m {
            for (g, is_l) in &d.marks {
                if *g as usize == gap {
                    let v = if *is_l { lookahead_at(fb[gap]) } else { lookbehind_at(fb[gap]) };
                    items.push(Val::L(v));
                    if (*is_l && fb[gap] >= fl) || (!*is_l && fb[gap] == 0) {
                        self.nontrivial = true;
                    }
                }
            }
            if gap < m {
                items.push(vals[gap].clone());
            }
        }
        match d.style {
            Style::Named | Style::Mut | Style::AngleAll | Style::NamedAngle => {
                self.log.push(id);
                Some(Val::N(id, items))
            }
            Style::Anon => {
                self.log.push(id);
                Some(Val::N(id, vec![]))
            }
            Style::AngleSel(mask) => {
                self.log.push(id);
                Some(Val::N(id, (0..m).filter(|i| mask & (1 << i) != 0).map(|i| vals[i].clone()).collect()))
            }
            Style::DefaultSel(p) => Some(vals[p as usize].clone()),
            Style::DefaultOnly => Some(vals[0].clone()),
            Style::Fallible => {
                self.log.push(id);
                let mark = self.dg.mark_term;
                if items.iter().any(|v| matches!(v, Val::T(t) if Some(*t) == mark)) {
                    // the reduction runs with the token after the enclosing node as lookahead
                    self.log.push(FAIL_MARK + id);
                    self.failed = Some((format!("act{}", id), (reduce_end + 1).min(self.ntoks)));
                    None
                } else {
                    Some(Val::N(id, items))
                }
            }
        }
    }
}

/// every inlined node deriving nothing has token-deriving siblings on both sides in its host
pub fn inlined_empty_only_interior(dg: &DG, t: &Tree) -> bool {
    match t {
        Tree::Tok(..) => true,
        Tree::Node(_, _, c) => {
            for (i, x) in c.iter().enumerate() {
                if let Tree::Node(n, _, _) = x {
                    if dg.inline[*n] && x.ntoks() == 0 {
                        let before = c[..i].iter().any(|y| y.ntoks() > 0);
                        let after = c[i + 1..].iter().any(|y| y.ntoks() > 0);
                        if !before || !after {
                            return false;
                        }
                    }
                }
            }
            c.iter().all(|x| inlined_empty_only_interior(dg, x))
        }
    }
}

fn inlined_empty(dg: &DG, t: &Tree) -> bool {
    match t {
        Tree::Tok(..) => false,
        Tree::Node(n, _, c) => (dg.inline[*n] && t.ntoks() == 0) || c.iter().any(|x| inlined_empty(dg, x)),
    }
}

pub fn expect(dg: &DG, tree: &Tree, ntoks: usize) -> Expect {
    let has_inlined_empty = inlined_empty(dg, tree);
    let mut ev = Ev { dg, ntoks, log: vec![], failed: None, nontrivial: false };
    let v = ev.eval(tree, 0);
    match (&ev.failed, v) {
        (Some((e, p)), _) => Expect { value: None, user_error: Some(e.clone()), log: ev.log.clone(), max_pulled: *p, nontrivial: ev.nontrivial, has_inlined_empty },
        (None, Some(v)) => Expect { value: Some(v.show(dg)), user_error: None, log: ev.log, max_pulled: usize::MAX, nontrivial: ev.nontrivial, has_inlined_empty },
        (None, None) => unreachable!(),
    }
}

/// prelude additions for value-building grammars (appended to implr::PRELUDE by the checks)
pub const V_PRELUDE: &str = r####"
#[derive(Clone, Debug, PartialEq)]
pub enum V { T(Tok), N(u32, Vec<V>), L(usize) }
impl V {
    pub fn n(id: u32, c: Vec<V>) -> V { V::N(id, c) }
    pub fn is_mark(&self) -> bool { matches!(self, V::T(Tok::Mark)) }
    pub fn show(&self) -> String {
        match self {
            V::T(t) => format!("{:?}", t),
            V::L(l) => format!("@{}", l),
            V::N(id, c) => format!("({}{})", id, c.iter().map(|x| format!(" {}", x.show())).collect::<String>()),
        }
    }
}
pub trait ToV { fn v(self) -> V; }
impl ToV for V { fn v(self) -> V { self } }
impl ToV for Tok { fn v(self) -> V { V::T(self) } }
impl ToV for usize { fn v(self) -> V { V::L(self) } }
impl<T: ToV> ToV for Vec<T> { fn v(self) -> V { V::N(900, self.into_iter().map(|x| x.v()).collect()) } }
impl<T: ToV> ToV for Option<T> { fn v(self) -> V { match self { Some(x) => V::N(901, vec![x.v()]), None => V::N(902, vec![]) } } }
impl ToV for () { fn v(self) -> V { V::N(903, vec![]) } }
impl<A: ToV, B: ToV> ToV for (A, B) { fn v(self) -> V { V::N(904, vec![self.0.v(), self.1.v()]) } }
impl<A: ToV, B: ToV, C: ToV> ToV for (A, B, C) { fn v(self) -> V { V::N(905, vec![self.0.v(), self.1.v(), self.2.v()]) } }
impl ToV for lalrpop_util::ErrorRecovery<usize, Tok, String> { fn v(self) -> V { V::N(906, self.dropped_tokens.into_iter().map(|(_, t, _)| V::T(t)).collect()) } }
macro_rules! vs { ($($x:expr),* $(,)?) => { { let v: Vec<V> = vec![$(ToV::v($x)),*]; v } } }
pub trait Vs { fn vs(self) -> Vec<V>; }
impl Vs for () { fn vs(self) -> Vec<V> { vec![] } }
impl Vs for V { fn vs(self) -> Vec<V> { vec![self] } }
impl Vs for Tok { fn vs(self) -> Vec<V> { vec![V::T(self)] } }
impl Vs for usize { fn vs(self) -> Vec<V> { vec![V::L(self)] } }
macro_rules! tuple_vs { ($($n:ident),+) => { impl<$($n: ToV),+> Vs for ($($n,)+) { #[allow(non_snake_case)] fn vs(self) -> Vec<V> { let ($($n,)+) = self; vec![$($n.v()),+] } } } }
tuple_vs!(A, B);
tuple_vs!(A, B, C);
tuple_vs!(A, B, C, D);
tuple_vs!(A, B, C, D, E);
tuple_vs!(A, B, C, D, E, F);
tuple_vs!(A, B, C, D, E, F, G);
tuple_vs!(A, B, C, D, E, F, G, H);
tuple_vs!(A, B, C, D, E, F, G, H, I);
tuple_vs!(A, B, C, D, E, F, G, H, I, J);
tuple_vs!(A, B, C, D, E, F, G, H, I, J, K);
tuple_vs!(A, B, C, D, E, F, G, H, I, J, K, L);
"####;
