use std::collections::HashSet;
fn main() { let s: HashSet<u32> = (0..8).collect(); println!("{:?}", s.iter().collect::<Vec<_>>()); }
