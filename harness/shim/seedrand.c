/* LD_PRELOAD shim: getrandom() returns a stream derived from $VERIF_HASH_SEED, so that the
 * SipHash keys of std::collections::hash_map::RandomState -- and with them every HashMap /
 * HashSet iteration order of the process -- are chosen by the harness (C20). */
#define _GNU_SOURCE
#include <stddef.h>
#include <stdlib.h>
#include <sys/types.h>

ssize_t getrandom(void *buf, size_t len, unsigned int flags) {
    (void)flags;
    const char *s = getenv("VERIF_HASH_SEED");
    unsigned long long x = s ? strtoull(s, 0, 10) : 0;
    unsigned long long z = 0;
    unsigned char *p = (unsigned char *)buf;
    for (size_t i = 0; i < len; i++) {
        if (i % 8 == 0) {
            x += 0x9E3779B97F4A7C15ULL;
            z = x;
            z = (z ^ (z >> 30)) * 0xBF58476D1CE4E5B9ULL;
            z = (z ^ (z >> 27)) * 0x94D049BB133111EBULL;
            z = z ^ (z >> 31);
        }
        p[i] = (unsigned char)(z >> (8 * (i % 8)));
    }
    return (ssize_t)len;
}
